#!/usr/bin/env python3
"""Seeded-change bookkeeping (run with /venv/bin/python).

  tools_seed.py verify <Cxx> <i>      confirm an agent's mutant in a scratch worktree (suite passes with it, demo fails
                                       with it, demo passes without it) and store it as /verif/seeded/<Cxx>-<i>/
  tools_seed.py check <Cxx>-<i> [prop ...] [--tier quick]   apply the stored patch to /repo, run the checks, undo
"""
import json, os, shutil, subprocess, sys

OUT = "/tmp/wt"
SEEDED = "/verif/seeded"


def sh(cmd, cwd=None, env=None, timeout=3600):
    e = dict(os.environ)
    e.update(env or {})
    p = subprocess.run(cmd, shell=True, cwd=cwd, env=e, capture_output=True, text=True, timeout=timeout)
    return p.returncode, p.stdout + p.stderr


def verify(prop, i, src=None, store_as=None):
    src = src or f"{OUT}/{prop}.out"
    wt = f"/tmp/sv-{prop}-{i}"
    sh(f"git -C /repo worktree remove --force {wt}")
    rc, o = sh(f"git -C /repo worktree add -q --detach {wt} HEAD")
    assert rc == 0, o
    try:
        env = {"PYTHONPATH": wt}
        rc, o = sh(f"/venv/bin/python {src}/demo{i}.py", cwd=wt, env=env)
        clean_ok = rc == 0
        rc, o = sh(f"git apply {src}/mutant{i}.diff", cwd=wt)
        if rc != 0:
            rc, o = sh(f"git apply --3way {src}/mutant{i}.diff", cwd=wt)
        applies = rc == 0
        tests_ok = demo_fails = None
        demo_out = ""
        if applies:
            rc, o = sh("/venv/bin/python -m pytest -q -p no:cacheprovider -n 8 -x", cwd=wt, env=env)
            tests_ok = rc == 0
            tests_tail = o.strip().splitlines()[-1] if o.strip() else ""
            rc, demo_out = sh(f"/venv/bin/python {src}/demo{i}.py", cwd=wt, env=env)
            demo_fails = rc != 0
            sh("git diff > /tmp/seed.diff", cwd=wt)
        print(f"{prop}-{i}: applies={applies} clean_demo_ok={clean_ok} tests_ok={tests_ok} demo_fails={demo_fails}")
        if applies and clean_ok and tests_ok and demo_fails:
            d = f"{SEEDED}/{prop}-{store_as or i}"
            os.makedirs(d, exist_ok=True)
            shutil.copy("/tmp/seed.diff", f"{d}/patch.diff")
            shutil.copy(f"{src}/demo{i}.py", f"{d}/demo.py")
            meta = json.load(open(f"{src}/meta{i}.json"))
            meta.update({"breaks_property": prop, "confirmed": {"suite_passes_with_change": True, "demo_fails_with_change": True,
                                                               "demo_passes_without_change": True,
                                                               "how": "scratch worktree of /repo HEAD; pytest -n 8; demo run with PYTHONPATH=<worktree>",
                                                               "suite_tail": tests_tail, "demo_output_tail": demo_out.strip()[-400:]},
                         "detected_by": meta.get("detected_by", {})})
            json.dump(meta, open(f"{d}/meta.json", "w"), indent=1)
            print("stored", d)
    finally:
        sh(f"git -C /repo worktree remove --force {wt}")


def check(name, props, tier):
    d = f"{SEEDED}/{name}"
    rc, o = sh(f"git -C /repo status --porcelain")
    assert not o.strip(), "repo dirty: " + o
    rc, o = sh(f"git -C /repo apply {d}/patch.diff")
    assert rc == 0, o
    res = {}
    try:
        for p in props:
            rc, o = sh(f"./vf {p} {tier}", cwd="/verif", timeout=7200)
            lines = [l for l in o.splitlines() if l.startswith(("VIOLATION", "  detail", "HARNESS", p))]
            res[p] = rc
            print(f"--- {name} vs {p} {tier}: exit {rc}")
            print("\n".join(l[:400] for l in lines[:8]))
    finally:
        sh("git -C /repo checkout -- .")
    meta = json.load(open(f"{d}/meta.json"))
    meta.setdefault("detected_by", {}).update({f"{p}:{tier}": ("VIOLATION" if rc == 1 else f"exit {rc}") for p, rc in res.items()})
    json.dump(meta, open(f"{d}/meta.json", "w"), indent=1)


if __name__ == "__main__" and sys.argv[1] not in ("matrix", "reconfirm"):
    if sys.argv[1] == "verify":
        verify(*sys.argv[2:6])
    else:
        args = [a for a in sys.argv[3:] if not a.startswith("--")]
        tier = "thorough" if "--thorough" in sys.argv else "quick"
        check(sys.argv[2], args or [sys.argv[2].split("-")[0]], tier)


def matrix(names, extra_props=None):
    """re-confirm every stored change on the current /repo HEAD (scratch worktree) and run its property's quick check on it"""
    import glob
    names = names or sorted(os.path.basename(d) for d in glob.glob(f"{SEEDED}/C*-*"))
    for name in names:
        d = f"{SEEDED}/{name}"
        prop = name.split("-")[0]
        wt = f"/tmp/mx-{name}"
        sh(f"git -C /repo worktree remove --force {wt}")
        rc, o = sh(f"git -C /repo worktree add -q --detach {wt} HEAD")
        if rc != 0:
            print(name, "worktree failed", o)
            continue
        meta = json.load(open(f"{d}/meta.json"))
        try:
            env = {"PYTHONPATH": wt}
            rc, o = sh(f"/venv/bin/python {d}/demo.py", cwd=wt, env=env)
            clean_ok = rc == 0
            rc, o = sh(f"git apply {d}/patch.diff", cwd=wt)
            if rc != 0:
                print(f"{name}: PATCH DOES NOT APPLY on HEAD: {o[:200]}")
                meta["applies_on_head"] = False
                json.dump(meta, open(f"{d}/meta.json", "w"), indent=1)
                continue
            rc, o = sh("/venv/bin/python -m pytest -q -p no:cacheprovider -n 8 -x", cwd=wt, env=env)
            tests_ok = rc == 0
            rc, o = sh(f"/venv/bin/python {d}/demo.py", cwd=wt, env=env)
            demo_fails = rc != 0
            res = {}
            for p in [prop] + list(extra_props or []):
                outdir = f"/tmp/mx-{name}.out"
                rc, o = sh(f"./vf {p} quick", cwd="/verif", env={"VF_REPO": wt, "VF_OUT": outdir}, timeout=7200)
                viol = [l for l in o.splitlines() if l.startswith("  detail")]
                res[p] = {"exit": rc, "first": viol[0][:300] if viol else ""}
                shutil.rmtree(outdir, ignore_errors=True)
            meta.update({"applies_on_head": True, "reconfirmed_on_head": {"demo_passes_without_change": clean_ok, "suite_passes_with_change": tests_ok,
                                                                          "demo_fails_with_change": demo_fails,
                                                                          "head": sh("git -C /repo log --format=%h -1")[1].strip()},
                         "detected_by_quick": {p: ("VIOLATION" if r["exit"] == 1 else f"exit {r['exit']}") for p, r in res.items()},
                         "first_violation": {p: r["first"] for p, r in res.items()}})
            json.dump(meta, open(f"{d}/meta.json", "w"), indent=1)
            print(f"{name}: clean_demo_ok={clean_ok} tests_ok={tests_ok} demo_fails={demo_fails} -> " +
                  ", ".join(f"{p}:{'CAUGHT' if r['exit'] == 1 else 'exit %d' % r['exit']}" for p, r in res.items()), flush=True)
        finally:
            sh(f"git -C /repo worktree remove --force {wt}")


def reconfirm(names):
    """cheap: every stored change still applies to /repo HEAD, its demo passes without it and fails with it (no test suite, no checks)"""
    import glob
    names = names or sorted(os.path.basename(d) for d in glob.glob(f"{SEEDED}/C*-*"))
    wt = "/tmp/rc-seeded"
    sh(f"git -C /repo worktree remove --force {wt}")
    rc, o = sh(f"git -C /repo worktree add -q --detach {wt} HEAD")
    assert rc == 0, o
    bad = 0
    try:
        env = {"PYTHONPATH": wt}
        for name in names:
            d = f"{SEEDED}/{name}"
            rc, o = sh(f"/venv/bin/python {d}/demo.py", cwd=wt, env=env)
            clean_ok = rc == 0
            rc, o = sh(f"git apply {d}/patch.diff", cwd=wt)
            applies = rc == 0
            fails = None
            if applies:
                rc, o = sh(f"/venv/bin/python {d}/demo.py", cwd=wt, env=env)
                fails = rc != 0
            sh("git checkout -q -- . && git clean -fdq", cwd=wt)
            ok = clean_ok and applies and fails
            bad += not ok
            if not ok:
                print(f"{name}: applies={applies} clean_demo_ok={clean_ok} demo_fails={fails}", flush=True)
    finally:
        sh(f"git -C /repo worktree remove --force {wt}")
    print(f"reconfirmed {len(names) - bad} of {len(names)}")


if __name__ == "__main__" and len(sys.argv) > 1 and sys.argv[1] == "reconfirm":
    reconfirm(sys.argv[2:])
if __name__ == "__main__" and len(sys.argv) > 1 and sys.argv[1] == "matrix":
    matrix(sys.argv[2:])
