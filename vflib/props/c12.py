"""C12 — flat and nested layouts describe the same models (differential, CH-E over tree-shaped model graphs)."""
import itertools
import typing

from vflib.parts import CH


def canon_ann(tp, own):
    """annotation with the emitted module's classes replaced by their simple names (layout-independent)."""
    if tp in own:
        return ("class", tp.__name__)
    args = typing.get_args(tp)
    if args:
        origin = typing.get_origin(tp)
        if origin is typing.Union:
            return ("Union", frozenset(canon_ann(a, own) for a in args))
        if origin is typing.Literal:
            return ("Literal", frozenset(args))
        return (getattr(origin, "__name__", str(origin)), tuple(canon_ann(a, own) for a in args))
    return getattr(tp, "__name__", repr(tp))


def scen_layouts(ch, params, out):
    import ast
    from json_to_models.registry import ModelFieldsNumberMatch
    from vflib import emitcheck, pipeline
    n = params.get("models", 4)
    shapes = list(itertools.product(*[range(-1, i) for i in range(n)]))
    parents = ch.choose("parents", shapes, shard=True)
    wraps = [ch.choose(f"edge{i}", ["obj", "list", "optional", "list_of_lists"] if parents[i] == -1 else ["obj", "list", "list_of_lists"]) for i in range(n)]
    twins = [ch.flag(f"twin_of_previous{i}") if i > 0 and params.get("twins") else False for i in range(n)]
    fw = ch.choose("framework", params.get("frameworks", ["base", "pydantic", "sqlmodel", "attrs", "dataclasses"]))
    policy = ch.choose("merge_policy", ["number_10 (nothing merges)", "default (twins merge into one model)"]) if any(twins) else "number_10"
    incremental = bool(params.get("incremental")) and ch.flag("registry_fed_one_sample_at_a_time")
    if incremental:
        policy = "default, one merge per sample"
    # keys that name the models: plain (class name = camelized key) or keys whose class name is changed by the generator's name
    # conversion (reserved typing names get a suffix, non-ASCII letters are transliterated); and which layout is rendered first from
    # the registry (the conversion is written back into the model, so the second rendering sees converted names)
    styled = params.get("model_keys") and ch.flag("model_keys_need_name_conversion")
    order = ("flat", "nested") if not params.get("model_keys") or ch.flag("flat_rendered_first") else ("nested", "flat")
    RENAMED = ["list", "donn\u00e9es", "dict", "any", "optional"]

    def mkey(j):
        return RENAMED[j] if styled else f"m{j}"

    ODD = "x\u2028y\u2029z\x85w"      # line separators other than \\n: legal in JSON strings, special for str.splitlines()

    def own_fields(i):
        j = i
        while twins[j]:
            j -= 1
        # three own fields: a twin that has a child still shares 3 of 4 keys with its childless twin (merged by the default policy)
        return {f"id{j}": 1, f"p{j}": ODD if j == 0 else "x", f"q{j}": 1.5}

    def build(i):
        o = dict(own_fields(i))
        for j in range(n):
            if parents[j] == i:
                o[mkey(j)] = wrapv(j)
        return o

    def wrapv(j):
        v = build(j)
        w = wraps[j]
        if w == "list":
            return [v]
        if w == "list_of_lists":
            return [[v], []]
        return v

    root1 = {"rootid": 1}
    root2 = {"rootid": 2}
    for j in range(n):
        if parents[j] == -1:
            root1[mkey(j)] = wrapv(j)
            if wraps[j] != "optional":
                root2[mkey(j)] = wrapv(j)
    # optional edges below the root level: second occurrence of the parent lacks the child -> needs list parents; keep it simple:
    samples = [root1, root2]
    out.info = {"parents": list(parents), "wraps": wraps, "twins": twins, "framework": fw, "policy": policy, "styled": bool(styled), "order": order}
    ctx = lambda: f"parents={parents} wraps={wraps} twins={twins} fw={fw} merge={policy} model_keys={'renamed' if styled else 'plain'} rendered={order}"
    try:
        if incremental:
            # the same registry is fed sample by sample with a merge after each: models merged in one round are merged again in the next
            from json_to_models.generator import MetadataGenerator
            from json_to_models.registry import ModelRegistry
            gen = MetadataGenerator()
            reg = ModelRegistry()       # default policy: equal models of successive samples merge in every round
            for smp in samples + [samples[0]]:
                reg.process_meta_data(gen.generate(smp), model_name="Root")
                reg.merge_models(gen)
            reg.generate_names()
        else:
            gen, reg, _ = pipeline.infer({"Root": samples}, merge=[ModelFieldsNumberMatch(10)] if policy.startswith("number") else None, dkf=None)
    except Exception as e:
        out.fail("inference_raises", f"{type(e).__name__}: {e} ({ctx()})", f"inference_raises:{type(e).__name__}")
        return
    nmodels = len(list(reg.models))
    kwargs = {"meta": True} if fw in ("attrs", "dataclasses") else {}
    texts, ems = {}, {}
    # without twins every model of the document is referenced from exactly one place: the inferred graph must be a tree, however
    # many merge rounds produced it (the parent links of the pointers are part of what a merge has to maintain)
    # (fed sample by sample, two root samples that differ by an optional child need not merge into one root model)
    tree_by_construction = not any(twins) and not (incremental and "optional" in wraps)
    if tree_by_construction:
        out.check(pipeline.is_tree(reg), "model_graph_not_a_tree", lambda: f"tree-shaped document, but the model graph is not a tree: "
                  f"{[(m.name, sorted(str(getattr(p.parent, 'name', None)) for p in m.pointers if p.parent is not None)) for m in reg.models]} ({ctx()})", "model_graph_not_a_tree")
    try:
        for layout in order:
            if layout == "nested" and not pipeline.is_tree(reg) and not tree_by_construction:
                continue
            try:
                texts[layout] = pipeline.emit(reg, fw, layout, **kwargs)
            except Exception as e:
                out.fail("emit_raises", f"[{fw}/{layout}] {type(e).__name__}: {e} ({ctx()})", f"emit_raises:{layout}:{type(e).__name__}")
                return
            try:
                tree = ast.parse(texts[layout])
            except SyntaxError as e:
                out.fail("module_syntax_error", f"[{fw}/{layout}] {e} ({ctx()})\n{texts[layout]}", f"module_does_not_load:{layout}")
                return
            cdefs = emitcheck.class_defs(tree)
            names = [c.name for _, c, _ in cdefs]
            out.check(sorted(names) == sorted(m.name for m in reg.models), "model_not_emitted_exactly_once",
                      lambda: f"[{fw}/{layout}] classes {names} for models {[m.name for m in reg.models]} ({ctx()})\n{texts[layout]}",
                      f"model_not_emitted_exactly_once:{layout}")
            if layout == "flat" and cdefs:
                out.check(cdefs[0][1].name == "Root", "flat_root_not_first", lambda: f"[{fw}] flat layout starts with {cdefs[0][1].name} ({ctx()})",
                          "flat_root_not_first")
                out.check(all(not outer for _, _, outer in cdefs), "flat_has_nesting", lambda: texts[layout], "flat_has_nesting")
            try:
                ems[layout] = emitcheck.Emitted(texts[layout], reg, fw, layout)
            except Exception as e:
                out.fail("module_does_not_load", f"[{fw}/{layout}] {type(e).__name__}: {e} ({ctx()})\n{texts[layout]}",
                         f"module_does_not_load:{layout}")
                return
        if "nested" not in ems or out.failures:
            return
        F, N = ems["flat"], ems["nested"]
        fcls = {c.__name__: c for c in F.ld.classes.values()}
        ncls = {c.__name__: c for c in N.ld.classes.values()}
        out.check(set(fcls) == set(ncls), "class_sets_differ", lambda: f"[{fw}] flat {sorted(fcls)} nested {sorted(ncls)} ({ctx()})", "class_sets_differ")
        fown, nown = set(fcls.values()), set(ncls.values())
        for name in set(fcls) & set(ncls):
            tf, tn = F.table(fcls[name]), N.table(ncls[name])
            out.check(list(tf) == list(tn), "fields_differ", lambda: f"[{fw}] class {name}: flat {list(tf)} nested {list(tn)} ({ctx()})", "fields_differ")
            for f in set(tf) & set(tn):
                a, b = canon_ann(tf[f]["annotation"], fown), canon_ann(tn[f]["annotation"], nown)
                out.check(a == b, "annotations_differ", lambda: f"[{fw}] {name}.{f}: flat {a} nested {b} ({ctx()})", "annotations_differ")
                out.check(tf[f]["has_default"] == tn[f]["has_default"] and repr(tf[f]["default"]) == repr(tn[f]["default"]) and tf[f]["key"] == tn[f]["key"],
                          "defaults_differ", lambda: f"[{fw}] {name}.{f}: flat {tf[f]} nested {tn[f]} ({ctx()})", "defaults_differ")
        # placement: each class sits inside the class that references it
        ref_parent = {}
        for m in reg.models:
            ps = {p.parent.name for p in m.pointers if p.parent is not None}
            ref_parent[m.name] = next(iter(ps)) if ps else None
        for q in N.ld.classes:
            parts_ = q.split(".")
            expected_parent = ref_parent.get(parts_[-1])
            actual_parent = parts_[-2] if len(parts_) > 1 else None
            out.check(actual_parent == expected_parent, "nested_misplaced",
                      lambda: f"[{fw}] class {q} is placed in {actual_parent}, referenced from {expected_parent} ({ctx()})\n{texts['nested']}", "nested_misplaced")
    finally:
        for e in ems.values():
            e.close()


def scen_flat_any_graph(ch, params, out):
    """flat-layout completeness on arbitrary (merged / shared / recursive) graphs from the program genome."""
    import ast
    from vflib import emitcheck, progsym
    params = dict(params)
    params["layouts"] = ["flat"]
    prog = progsym.choose_program(ch, params)
    b = progsym.build(prog, out)
    if b is None or b == "skip":
        out.failures[:] = []
        out.checked += 1
        return
    gen, reg, text = b
    out.info = {k: prog[k] for k in ("k", "template", "framework")}
    try:
        names = [c.name for _, c, _ in emitcheck.class_defs(ast.parse(text))]
    except SyntaxError:
        out.checked += 1
        return
    out.check(sorted(names) == sorted(m.name for m in reg.models), "model_not_emitted_exactly_once",
              lambda: f"[{prog['framework']}/flat] classes {names} for models {[m.name for m in reg.models]} (template {prog['template']})\n{text}",
              "model_not_emitted_exactly_once:flat")
    out.check(not names or names[0] == "Root", "flat_root_not_first", lambda: f"{names}", "flat_root_not_first")


def parts(tier):
    if tier == "quick":
        return [
            CH("trees3", "vflib.props.c12:scen_layouts", {"models": 3, "twins": True}, shards=6, timeout=170, path_timeout=30),
            CH("trees3_incremental_registry", "vflib.props.c12:scen_layouts", {"models": 3, "twins": True, "incremental": True, "frameworks": ["pydantic", "dataclasses"]},
               shards=6, timeout=170, path_timeout=30),
            CH("trees3_converted_names", "vflib.props.c12:scen_layouts", {"models": 3, "model_keys": True, "frameworks": ["pydantic", "dataclasses", "attrs"]},
               shards=6, timeout=170, path_timeout=30),
            CH("flat_any_graph", "vflib.props.c12:scen_flat_any_graph",
               {"pool": "KEY_POOL_QUICK", "styled": "k3", "templates": ["two_similar_children", "recursive", "deep_chain", "list_of_objects"]},
               shards=12, timeout=170, path_timeout=30),
        ]
    return [
        CH("trees4", "vflib.props.c12:scen_layouts", {"models": 4, "twins": True}, shards=16, timeout=150, path_timeout=30),
        CH("trees4_converted_names", "vflib.props.c12:scen_layouts", {"models": 4, "model_keys": True}, shards=16, timeout=150, path_timeout=30),
        CH("flat_any_graph", "vflib.props.c12:scen_flat_any_graph",
           {"pool": "KEY_POOL_FULL", "styled": "k3", "templates": ["two_similar_children", "recursive", "deep_chain", "list_of_objects", "nested_object"]},
           shards=16, timeout=150, path_timeout=30),
    ]


META = {
    "level": "exploration", "mode": "CH-E",
    "explanation": "for every tree-shaped model graph within the bound both layouts are emitted by the real code, loaded, and compared class by class; flat completeness also on merged / shared / recursive graphs",
    "functions_encoded": ["compose_models", "compose_models_flat", "extract_root", "filter_pointers", "ListEx / PositionsDict", "_generate_code / generate_code", "indent"],
    "symbolic_on_path": ["parent index per model", "edge kind (object / list / list of lists / optional at root level) per model", "twin-of-previous bit (identical field sets, unmerged)", "framework"],
    "bounds": {"quick": "3 nested models (6 tree shapes) x 4 edge kinds each x twin bits x 5 frameworks; flat completeness on 4 non-tree templates x 24 keys x 5 frameworks",
               "thorough": "4 nested models (24 tree shapes)"},
    "outside_claim": ["graphs with more than 4 nested models", "nested layout for non-tree graphs (excluded by the property)"],
    "assumptions": ["merge policy number_10 keeps all generated models apart, so twins stay distinct models"],
}
if isinstance(META.get("bounds"), dict) and "quick" in META["bounds"]:
    META["bounds"]["quick"] += '; 3 models whose keys need class-name conversion, either layout rendered first (3 frameworks)'
