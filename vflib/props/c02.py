"""C02 — inferred types are tight (shares the C01 exploration; oracle = witnesses per position of the final graph)."""
from vflib.parts import CH
from vflib.props import c01


def scen_tight(ch, params, out):
    from vflib import oracles
    st = c01.explore(ch, params, out)
    if st is None:
        # failures of inference itself belong to C01/C08; tightness has nothing to examine
        out.failures[:] = [f for f in out.failures if not f["kind"].startswith("inference_raises")]
        return
    samples, reg = st["samples"], st["reg"]
    root = c01.root_model(reg)
    why = []
    for s in samples:
        if not oracles.inhabits_ir(s, root, why):
            return      # unsound inference is C01's finding; witnesses are only defined for admitted samples
    bad = oracles.tightness_violations(root, samples, st["gen"].str_types_registry)
    out.check(not bad, "not_tight", lambda: f"{bad[:4]} for samples {samples}; root={root.type}",
              "not_tight:" + (bad[0].split(":")[1].strip().split(" ")[0] if bad else ""))


def parts(tier):
    if tier == "quick":
        return [
            CH("pairs", "vflib.props.c02:scen_tight",
               {"kinds": "KINDS_FULL", "samples": 2, "keys": ["a"], "merge": ["default", "exact", "p50n2"]},
               shards=16, timeout=170, path_timeout=30, mode="CH-P+CH-E"),
            CH("triples", "vflib.props.c02:scen_tight",
               {"kinds": "KINDS_INTERACT", "samples": 3, "keys": ["a"], "dkf": True},
               shards=16, timeout=170, path_timeout=30, mode="CH-P+CH-E"),
            CH("literals", "vflib.props.c02:scen_tight",
               {"kinds": "KINDS_LIT", "samples": 2, "keys": ["a"], "merge": ["default"], "symbolic_leaves": False},
               shards=14, timeout=170, path_timeout=30, mode="CH-E"),
            CH("two_nested_fields", "vflib.props.c02:scen_tight",
               {"kinds": "KINDS_NEST", "samples": 1, "keys": ["a", "b"], "merge": ["default", "p50n2"], "symbolic_leaves": False},
               shards=16, timeout=170, path_timeout=30, mode="CH-E"),
            CH("literals_merged_models", "vflib.props.c02:scen_tight",
               {"kinds": "KINDS_LITM", "samples": 1, "keys": ["a", "b"], "merge": ["default"], "symbolic_leaves": False},
               shards=4, timeout=170, path_timeout=30, mode="CH-E"),
            # the same string at several positions (fields a, b and inside nested values): a Literal must not pick up strings from elsewhere
            CH("same_string_at_two_positions", "vflib.props.c02:scen_tight",
               {"kinds": "KINDS_SAMESTR", "samples": 2, "keys": ["a", "b"], "merge": ["default"], "symbolic_leaves": False},
               shards=16, timeout=170, path_timeout=30, mode="CH-E"),
        ]
    return [
        CH("pairs", "vflib.props.c02:scen_tight",
           {"kinds": "KINDS_FULL", "samples": 2, "keys": ["a"], "merge": ["default", "exact", "p50n2"], "registries": ["default", "none"], "dkf": True, "dkr": True},
           shards=16, timeout=150, path_timeout=30, mode="CH-P+CH-E"),
        CH("triples", "vflib.props.c02:scen_tight", {"kinds": "KINDS_FULL", "samples": 3, "keys": ["a"]}, shards=16, timeout=150, path_timeout=30, mode="CH-P+CH-E"),
        CH("two_keys", "vflib.props.c02:scen_tight", {"kinds": "KINDS_SMALL", "samples": 2, "keys": ["a", "b"], "merge": ["default", "p50n2"]},
           shards=16, timeout=150, path_timeout=30, mode="CH-P+CH-E"),
        CH("three_nested_fields", "vflib.props.c02:scen_tight", {"kinds": "KINDS_NEST", "samples": 1, "keys": ["a", "b", "c"], "merge": ["default", "p50n2"],
                                                                  "symbolic_leaves": False}, shards=16, timeout=150, path_timeout=30, mode="CH-E"),
        CH("grammar_depth1_pairs", "vflib.props.c02:scen_tight", {"kinds": "GRAMMAR1", "samples": 2, "keys": ["a"], "symbolic_leaves": False},
           shards=16, timeout=150, path_timeout=30, mode="CH-E"),
        CH("grammar_depth2_pairs", "vflib.props.c02:scen_tight", {"kinds": "GRAMMAR2", "samples": 2, "keys": ["a"], "symbolic_leaves": False},
           shards=16, timeout=150, path_timeout=30, mode="CH-E"),
        CH("literals", "vflib.props.c02:scen_tight", {"kinds": "KINDS_LIT", "samples": 3, "keys": ["a"], "symbolic_leaves": False},
           shards=14, timeout=150, path_timeout=30, mode="CH-E"),
        CH("literals_merged_models", "vflib.props.c02:scen_tight",
           {"kinds": "KINDS_LITM", "samples": 2, "keys": ["a", "b"], "merge": ["default"], "symbolic_leaves": False}, shards=5, timeout=150, path_timeout=30, mode="CH-E"),
    ]


META = dict(c01.META)
META.update({
    "explanation": "every shape genome within the bound is explored; the final model graph is walked in parallel with the samples and every Optional / union member / element type / Literal / Any must have a witness among the routed values",
    "bounds": {"quick": "2 samples x 23 kinds x 3 merge policies; 3 samples x 9 interaction kinds x dict_keys_fields bit; literal kinds (14) x 2 samples; merged models with literal fields",
               "thorough": "+ registries, dict-field options; 3 samples x 23 kinds; 2 keys; 3 nested fields; 3 samples x 14 literal kinds"},
    "outside_claim": ["deeper nesting / more samples / more varying keys than the bound"],
    "assumptions": ["strings are atoms from a fixed pool", "a value inhabiting two union members counts as a witness for both"],
})
