"""Known findings: /verif/known_findings.json is committed and never written at run time."""
import json
import os

PATH = os.path.join(os.path.dirname(os.path.dirname(os.path.abspath(__file__))), "known_findings.json")


def load():
    try:
        with open(PATH) as f:
            data = json.load(f)
    except FileNotFoundError:
        return []
    return [e for e in data.get("findings", []) if e.get("status", "known") == "known"]


def split(prop, failures, known):
    """-> (failures not listed, list of known entries hit). A failure is matched by exact fingerprint."""
    unknown, hits = [], []
    for f in failures:
        for k in known:
            if k["property"] == prop and k["fingerprint"] == f.get("fingerprint"):
                hits.append(k)
                break
        else:
            unknown.append(f)
    return unknown, hits
