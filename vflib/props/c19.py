"""C19 — header and preamble never corrupt the generated module.

  SMT-S header   : Cli.version_string translated from its source AST; argv = 3 unbounded symbolic strings, clock string
                   in the ctime language; assertion: header in  r\"\"\" RAW3-body \"\"\" newline  (CPython's raw
                   triple-quoted literal, modelled as a regular language and validated against compile()).
  SMT-S preamble : the tail of generate_code and the trimming in Cli.set_args translated; the output is
                   imports . strip(p) . classes with the delimiter, and equals the no-preamble output for blank p.
  CH-P  header   : bounded twin of the header check on a CrossHair symbolic argv string (alphabet quote/backslash/
                   newline/letter, length <= 6), used when the SMT query is inconclusive (e.g. str.replace_all).
  CH-E  end2end  : argv / preamble atoms through the in-process CLI; ast of the output.
"""
import ast

from vflib.parts import CH, SMT

ATOMS = ['"', '"""', "\\", "tail\\", "new\nline", "é", "#c", "'''", '""""', '\\"""', "x\\\\", "r\"", "a b", "\\N{x}", "\\x1"]


def raw3_body():
    """regular language of bodies b such that  r\"\"\" b \"\"\"  is one complete raw string literal"""
    import z3
    anyc = z3.AllChar(z3.ReSort(z3.StringSort()))
    nul = z3.Re("\x00")
    q, bs = z3.Re('"'), z3.Re("\\")
    plain = z3.Intersect(anyc, z3.Complement(z3.Union(q, bs, nul)))
    esc = z3.Concat(bs, z3.Intersect(anyc, z3.Complement(nul)))
    A = z3.Union(plain, esc)
    return z3.Star(z3.Union(A, z3.Concat(q, A), z3.Concat(q, q, A)))


def raw3_scan(body):
    """hand-written scanner equivalent to raw3_body (used for model validation and by the bounded CrossHair twin)"""
    i, n, run = 0, len(body), 0
    while i < n:
        c = body[i]
        if c == "\x00":
            return False
        if c == "\\":
            if i + 1 >= n:
                return False
            i += 2
            run = 0
            continue
        if c == '"':
            run += 1
            if run == 3:
                return False
        else:
            run = 0
        i += 1
    return run == 0


def header_is_one_string(text):
    """ground truth: `text` = r\"\"\" body \"\"\" newline parses as a module whose only statement is the string `body` itself
    (CPython also accepts e.g. r\"\"\"x\"\"\"\"\" — literal x plus an adjacent empty literal — but that is not the echoed text any more)"""
    if not (text.startswith('r"""') and text.endswith('"""\n')):
        return False
    try:
        t = ast.parse(text + "pass\n")
    except (SyntaxError, ValueError):
        return False
    return len(t.body) == 2 and isinstance(t.body[0], ast.Expr) and isinstance(t.body[0].value, ast.Constant) and t.body[0].value.value == text[4:-4]


def replay_header(case):
    import sys
    from unittest import mock
    from json_to_models.cli import Cli
    c = Cli()
    with mock.patch.object(sys, "argv", list(case["argv"])):
        h = c.version_string
    if not header_is_one_string(h):
        return f"argv {case['argv']!r}: header {h!r} is not one complete string statement"
    return None


def kernel_header(tier, seed, params):
    import random
    import time
    import z3
    from json_to_models.cli import Cli
    import json_to_models.cli as cli_mod
    from vflib import py2smt
    from vflib.py2smt import Translator, Untranslatable
    res = {"obligations": 1, "discharged": 0, "queries": [], "counterexamples": [], "inconclusive": [], "errors": [],
           "functions_encoded": ["Cli.version_string"], "bounds": {"argv": "3 strings of any length", "clock": "ctime language"},
           "samples": [], "solver_time_s": 0.0}
    # ---- validate the RAW3 model against CPython (solver-generated members / non-members + random strings)
    s = z3.String("b")
    rnd = random.Random(seed)
    L = raw3_body()
    alphabet = z3.Star(z3.Union(*[z3.Re(c) for c in '"\\a\n#']))
    pts = bad = 0
    for want in (True, False):
        sol = z3.Solver()
        sol.set("timeout", 20000)
        sol.add(z3.InRe(s, alphabet), z3.InRe(s, L) if want else z3.Not(z3.InRe(s, L)))
        for _ in range(40):
            sol.push()
            sol.add(z3.Length(s) == rnd.randint(0, 7))
            if str(sol.check()) == "sat":
                v = py2smt.z3str(sol.model().eval(s, model_completion=True))
                sol.pop()
                sol.add(s != z3.StringVal(v))
                pts += 1
                truth = header_is_one_string('r"""' + v + '"""\n')
                if truth != want or raw3_scan(v) != want:
                    bad += 1
                    res["errors"].append(f"RAW3 model wrong on body {v!r}: model {want}, CPython {truth}, scanner {raw3_scan(v)}")
            else:
                sol.pop()
    for _ in range(200):
        v = "".join(rnd.choice('"\\a\n') for _ in range(rnd.randint(0, 8)))
        pts += 1
        if header_is_one_string('r"""' + v + '"""\n') != raw3_scan(v):
            bad += 1
            res["errors"].append(f"RAW3 scanner wrong on {v!r}")
    res["validation"] = {"points": pts, "disagreements": bad}
    if bad:
        return res
    # ---- translate the header expression
    argv = [z3.String(f"argv{i}") for i in range(3)]
    clock = z3.String("clock")
    D = z3.Range("0", "9")
    word = z3.Concat(z3.Range("A", "Z"), z3.Range("a", "z"), z3.Range("a", "z"))
    ctime_re = z3.Concat(word, z3.Re(" "), word, z3.Re(" "), z3.Union(z3.Re(" "), D), D, z3.Re(" "), D, D, z3.Re(":"), D, D, z3.Re(":"), D, D,
                         z3.Re(" "), D, D, D, D)
    try:
        T = Translator()
        T.abstract_replace = True
        fn = Cli.version_string.fget
        header = T.call_function(fn, [Cli.__new__(Cli)], extra_env={"datetime.now().ctime()": clock, "sys.argv": argv,
                                                                    "VERSION": cli_mod.VERSION})
        header = py2smt.to_str(header)
    except Untranslatable as e:
        res["inconclusive"].append(f"translator refused Cli.version_string: {e}")
        return res
    prefix, suffix = 'r"""', '"""\n'
    # the translated header is a concatenation; peel the literal prefix / suffix off its first / last constant part
    parts = list(header.children()) if z3.is_app(header) and header.decl().kind() == z3.Z3_OP_SEQ_CONCAT else [header]

    def flat(e):
        if z3.is_app(e) and e.decl().kind() == z3.Z3_OP_SEQ_CONCAT:
            for c in e.children():
                yield from flat(c)
        else:
            yield e
    parts = list(flat(header))
    first, last = parts[0], parts[-1]
    structural = z3.is_string_value(first) and z3.is_string_value(last) and py2smt.z3str(first).startswith(prefix) and \
        py2smt.z3str(last).endswith(suffix) and len(parts) >= 2
    sol = z3.Solver()
    sol.set("timeout", params.get("timeout", 60) * 1000)
    sol.add(z3.InRe(clock, ctime_re))
    nonul = z3.Star(z3.Range("\x01", "\\u{2ffff}"))     # z3's character sort ends at U+2FFFF
    for a in argv:
        sol.add(z3.InRe(a, nonul))      # an OS argument vector cannot carry NUL
    for name, c in T.side:
        sol.add(c)
    for y, src in getattr(T, "replaced_vars", []):
        sol.add(z3.InRe(y, nonul))     # replacing inside NUL-free text with NUL-free text gives NUL-free text
    if structural:
        mid = [z3.StringVal(py2smt.z3str(first)[len(prefix):])] + parts[1:-1] + [z3.StringVal(py2smt.z3str(last)[:-len(suffix)])]
        sol.add(z3.Not(z3.InRe(z3.Concat(*mid), L)))
    else:
        sol.add(z3.Length(header) >= 8)
        bdy = z3.SubString(header, 4, z3.Length(header) - 8)
        sol.add(z3.Or(z3.Not(z3.PrefixOf(z3.StringVal(prefix), header)), z3.Not(z3.SuffixOf(z3.StringVal(suffix), header)), z3.Not(z3.InRe(bdy, L))))
    t0 = time.time()
    r = str(sol.check())
    dt = round(time.time() - t0, 3)
    res["solver_time_s"] += dt
    res["queries"].append({"name": "exists argv, clock . header not in r\"\"\" RAW3 \"\"\"\\n", "result": r, "time_s": dt, "engine": "z3 " + z3.get_version_string()})
    tw = z3.Solver()
    tw.set("timeout", 30000)
    # reachability witness with concrete argv (a ground query: it must be sat, and quickly)
    tw.add(z3.InRe(clock, ctime_re), argv[0] == z3.StringVal("prog"), argv[1] == z3.StringVal("-m"), argv[2] == z3.StringVal("a b"),
           clock == z3.StringVal("Sun Sep 27 17:31:44 2026"))
    for a in argv:
        tw.add(z3.InRe(a, nonul))
    for name, c in T.side:
        tw.add(c)
    for y, src in getattr(T, "replaced_vars", []):
        tw.add(y == z3.StringVal("prog -m a b"))
    if structural:
        tw.add(z3.InRe(z3.Concat(*mid), L))      # reachability: some non-trivial argv does satisfy the property
    twr = str(tw.check())
    if twr == "unsat" or (twr != "sat" and r != "unknown"):
        res["errors"].append(f"vacuity twin: {twr}")
    if r == "unsat":
        res["discharged"] = 1
    elif r == "sat" and getattr(T, "abstractions", None):
        m = sol.model()
        res["inconclusive"].append(f"header query sat under the abstraction {T.abstractions} (possibly spurious; model "
                                   f"{[py2smt.z3str(m.eval(y, model_completion=True)) for y, _ in T.replaced_vars]}); bounded CrossHair twin decides")
    elif r == "sat":
        m = sol.model()
        av = [py2smt.z3str(m.eval(a, model_completion=True)) for a in argv]
        res["counterexamples"].append({"replay": "vflib.props.c19:replay_header", "case": {"argv": av},
                                       "what": f"header is not a complete raw string for argv {av!r}", "fingerprint": "header_breaks_module"})
    else:
        res["inconclusive"].append(f"header query: {r} (bounded CrossHair twin and end-to-end harness cover the alphabet)")
    res["samples"] = [{"obligation": "for all argv[0..2], clock in ctime: version_string in r\"\"\" . RAW3 . \"\"\"\\n", "expression": str(header)[:300],
                       "abstractions": getattr(T, "abstractions", [])}]
    return res


def replay_preamble(case):
    from json_to_models.models.base import GenericModelCodeGenerator, generate_code
    from vflib import pipeline
    gen, reg, _ = pipeline.infer({"Root": [case["sample"]]})
    from json_to_models.models.structure import compose_models_flat
    with_p = generate_code(compose_models_flat(reg.models_map), GenericModelCodeGenerator, preamble=case["preamble"])
    gen, reg, _ = pipeline.infer({"Root": [case["sample"]]})
    without = generate_code(compose_models_flat(reg.models_map), GenericModelCodeGenerator)
    p = case["preamble"]
    if with_p.count(p) != 1 or with_p.replace(p + "\n\n\n", "", 1) != without:
        return f"preamble {p!r}: output with preamble {with_p!r} is not the output without it plus the preamble once before the classes"
    return None


def kernel_preamble(tier, seed, params):
    import time
    import z3
    from json_to_models.cli import Cli
    from json_to_models.models import base as base_mod
    from vflib import py2smt
    from vflib.py2smt import Translator, Untranslatable
    res = {"obligations": 0, "discharged": 0, "queries": [], "counterexamples": [], "inconclusive": [], "errors": [],
           "functions_encoded": ["generate_code (assembly of imports, preamble, classes)", "Cli.set_args (preamble trimming)"],
           "bounds": {"classes": "1..3 opaque non-empty strings", "imports": "present or absent", "preamble": "any string"}, "samples": [], "solver_time_s": 0.0}
    D = "\n\n\n"
    P = z3.String("preamble")
    I = z3.String("imports_text")
    classes = [z3.String(f"class{i}") for i in range(3)]
    for has_imports in (True, False):
        for k in (1, 3):
            res["obligations"] += 1
            try:
                T = Translator()
                T.frozen = {"imports", "classes"}
                out = T.call_function(base_mod.generate_code, ["structure", "class_generator", None, D, P],
                                      extra_env={"imports": ["x"] if has_imports else [], "classes": classes[:k], "compile_imports": lambda *_: I,
                                                 "_generate_code": lambda *a, **kw: None})
                out = py2smt.to_str(out)
            except (Untranslatable, KeyError) as e:
                res["inconclusive"].append(f"translator refused generate_code: {e}")
                continue
            joined = classes[0] if k == 1 else z3.Concat(classes[0], z3.StringVal(D), classes[1], z3.StringVal(D), classes[2])
            head = z3.Concat(I, z3.StringVal(D)) if has_imports else z3.StringVal("")
            spec = z3.If(z3.Length(P) > 0, z3.Concat(head, P, z3.StringVal(D), joined, z3.StringVal("\n")), z3.Concat(head, joined, z3.StringVal("\n")))
            sol = z3.Solver()
            sol.set("timeout", 60000)
            sol.add(out != spec)
            t0 = time.time()
            r = str(sol.check())
            dt = round(time.time() - t0, 3)
            res["solver_time_s"] += dt
            res["queries"].append({"name": f"generate_code tail != spec (imports={has_imports}, classes={k})", "result": r, "time_s": dt,
                                   "engine": "z3 " + z3.get_version_string()})
            if r == "unsat":
                res["discharged"] += 1
            elif r == "sat":
                m = sol.model()
                pv = py2smt.z3str(m.eval(P, model_completion=True)) or "# preamble"
                sample = {"a": [1, "s"]} if has_imports else {"a": 1}
                res["counterexamples"].append({"replay": "vflib.props.c19:replay_preamble", "case": {"preamble": pv, "sample": sample},
                                               "what": f"assembled text differs from imports+preamble+classes (imports={has_imports})",
                                               "fingerprint": f"preamble_placement:imports={has_imports}"})
            else:
                res["inconclusive"].append(f"generate_code tail: {r}")
    # trimming in set_args: self.preamble == strip(p) or None
    res["obligations"] += 1
    try:
        tree = py2smt.function_ast(Cli.set_args)
        stmts = [st for st in tree.body if "preamble" in ast.unparse(st)]
        T = Translator()
        env = {"preamble": P}
        T.run_body(stmts, env)
        final = env.get("self.preamble")
        core_none = z3.BoolVal(final is None) if not z3.is_expr(final) else None
        # `preamble or None`: truthy string stays, empty becomes None -> our translation of BoolOp Or gives a Bool; re-derive from env
        stripped = env.get("preamble")
        sol = z3.Solver()
        sol.set("timeout", 60000)
        for _, c in T.side:
            sol.add(c)
        ws = py2smt.ws_star()
        # claim: blank preamble -> stripped is empty; otherwise stripped is p without surrounding whitespace (by the strip contract)
        sol.add(z3.Or(z3.And(z3.InRe(P, ws), z3.Length(py2smt.to_str(stripped)) > 0),
                      z3.And(z3.Not(z3.InRe(P, ws)), z3.Length(py2smt.to_str(stripped)) == 0),
                      z3.And(z3.Length(P) == 0, z3.Length(py2smt.to_str(stripped)) > 0)))
        t0 = time.time()
        r = str(sol.check())
        dt = round(time.time() - t0, 3)
        res["queries"].append({"name": "set_args trimming: blank preamble <-> empty stripped text", "result": r, "time_s": dt, "engine": "z3 " + z3.get_version_string()})
        res["solver_time_s"] += dt
        if r == "unsat":
            res["discharged"] += 1
        else:
            res["inconclusive"].append(f"trimming: {r}")
    except (Untranslatable, KeyError, TypeError) as e:
        res["inconclusive"].append(f"translator refused set_args preamble statements: {e}")
    res["samples"] = [{"obligation": "generate_code(...) == [imports + D] + [preamble + D if preamble] + D.join(classes) + newline"}]
    return res


def scen_header_bounded(ch, params, out):
    """CH-P: real version_string on a CrossHair symbolic argv string over a small alphabet."""
    import sys
    from json_to_models.cli import Cli
    n = params.get("maxlen", 5)
    s = ch.sym_str("argv1", n, 127)
    alphabet = params.get("alphabet", '"\\a\n')
    c = Cli.__new__(Cli)
    saved = sys.argv
    try:
        with ch.traced():
            ok_alpha = True
            for chx in s:
                if chx not in alphabet:
                    ok_alpha = False
                    break
            if not ok_alpha:
                out.checked += 1
                return
            sys.argv = ["prog", s]
            h = c.version_string
            body = h[4:len(h) - 4]
            good = h[:4] == 'r"""' and h[len(h) - 4:] == '"""\n' and raw3_scan(body)
    finally:
        sys.argv = saved
    out.check(good, "header_breaks_module", lambda: f"argv {ch.finalize()}", "header_breaks_module")


def scen_e2e(ch, params, out):
    import json
    from vflib import clienv
    a1, a2 = ch.choose("argv_atoms", [(a, b) for a in [None] + ATOMS for b in [None] + ATOMS], shard=True)
    pre_kind = ch.choose("preamble", ["none", "blank", "comment", "code", "atom", "atom_padded", "odd_separators", "backslashes", "blank_line_runs"])
    fw = ch.choose("framework", params.get("frameworks", ["base", "pydantic", "attrs", "dataclasses"]))
    scalars_only = ch.flag("sample_without_imports")
    doc = [{"a": 1, "b": 2.5}] if scalars_only else [{"a": [1, "s"], "b": "2020"}]
    fs = {"/vfs/in.json": json.dumps(doc)}
    argv = ["-m", "Root", "/vfs/in.json", "-f", fw]
    pre = {"none": None, "blank": " \n\t ", "comment": "# generated, do not edit", "code": "import os\nX = os.sep",
           "atom": (a1 or "#") , "atom_padded": "\n  # " + (a2 or "x") + "  \n",
           # characters that str.splitlines() treats as line ends but the Python tokenizer does not; escapes a regex template would process
           "odd_separators": 'SEP = "a\u2028b\x0cc\x85d"  # \u2029 end', "backslashes": 'PAT = r"\\d+\\1"; P2 = "C:\\\\temp\\n"',
           # runs of blank lines and trailing spaces inside the preamble (a tidy-up pass over the assembled module would alter them)
           "blank_line_runs": '# first\n\n\n\n\n# second   \nBANNER = """a\n\n\n\n\n\nb  \n"""\n\n\n\n# third'}[pre_kind]
    if pre_kind == "atom":
        pre = "# " + pre.replace("\n", " ")
    if pre is not None:
        argv += ["--preamble", pre]
    extra = [x for x in (a1, a2) if x is not None]
    # extra argv strings ride along as code-generator kwargs values (they only have to appear in the echoed command line)
    argv_full = argv + (["--disable-str-serializable-types"] + [e for e in extra if not e.startswith("-")] if extra else [])
    res = clienv.run_main(argv_full, fs)
    out.info = {"argv": argv_full, "preamble": pre}
    ctx = lambda: f"argv={argv_full!r}"
    if not out.check(res.status == 0, "cli_fails", lambda: f"{res.stderr[-300:]} ({ctx()})", "cli_fails"):
        return
    text = res.stdout
    try:
        tree = ast.parse(text)
    except SyntaxError as e:
        out.fail("output_not_a_module", f"{e} ({ctx()})\n{text[:400]}", "header_breaks_module")
        return
    first = tree.body[0]
    out.check(isinstance(first, ast.Expr) and isinstance(first.value, ast.Constant) and isinstance(first.value.value, str)
              and "generated by json2python-models" in first.value.value, "first_statement_not_header", lambda: f"{ast.dump(first)[:200]} ({ctx()})",
              "header_breaks_module")
    ref = clienv.run_main(argv[:argv.index("--preamble")] if pre is not None else argv, dict(fs))
    body = lambda t: t.split('\n"""\n', 1)[1] if '\n"""\n' in t else t
    stripped = pre.strip() if pre else ""
    if not stripped:
        out.check(body(text) == body(ref.stdout), "blank_preamble_changes_output", lambda: f"({ctx()})", "blank_preamble_changes_output")
    else:
        b = body(text)
        out.check(b.count(stripped) == 1, "preamble_not_exactly_once", lambda: f"{b.count(stripped)} occurrences ({ctx()})\n{b[:300]}",
                  "preamble_not_exactly_once")
        out.check(b.replace(stripped + "\n\n\n", "", 1) == body(ref.stdout), "preamble_misplaced_or_altered",
                  lambda: f"({ctx()})\n{b[:400]}", "preamble_misplaced_or_altered")
        lines = b.split("\n")
        pos = b.find(stripped)
        before, after = b[:pos], b[pos + len(stripped):]
        out.check("class " not in before and not any(l.startswith(("import ", "from ")) and l not in stripped for l in after.split("\n")),
                  "preamble_misplaced_or_altered", lambda: f"({ctx()})", "preamble_misplaced_or_altered")


def parts(tier):
    q = tier == "quick"
    return [SMT("header", "vflib.props.c19:kernel_header", {"timeout": 60 if q else 600}, timeout=400 if q else 900, mode="SMT-S"),
            SMT("preamble", "vflib.props.c19:kernel_preamble", {}, timeout=400, mode="SMT-S"),
            CH("header_bounded", "vflib.props.c19:scen_header_bounded", {"maxlen": 4 if q else 6}, shards=1, timeout=170 if q else 200, path_timeout=60, mode="CH-P"),
            CH("end_to_end", "vflib.props.c19:scen_e2e", {"frameworks": ["base", "pydantic"] if q else ["base", "pydantic", "attrs", "dataclasses"]},
               shards=16, timeout=170 if q else 200, path_timeout=30)]


META = {
    "level": "other",
    "technique": "SMT over z3's string/regex theory on Cli.version_string and the tail of generate_code translated from the source AST (CPython's raw triple-quoted literal as a validated regular language); bounded CrossHair symbolic argv string; CrossHair-exhausted atoms through the real CLI",
    "mode": "SMT-S + CH-P + CH-E",
    "explanation": "header: for all argv strings of any length the header is one complete raw string literal; preamble: the assembled text is imports+preamble+classes for every preamble string; end to end on an atom alphabet",
    "functions_encoded": ["Cli.version_string", "generate_code (tail)", "Cli.set_args (preamble trimming)", "Cli.parse_args / run (end to end)"],
    "symbolic_on_path": ["argv strings (unbounded, SMT)", "clock string", "preamble string (SMT)", "symbolic argv string <= 4/6 chars over {quote, backslash, a, newline} (CrossHair)", "atoms, preamble kind, framework (CH-E)"],
    "bounds": {"quick": "SMT: 3 argv strings of any length; CH-P: argv string of <=4 chars; CH-E: pairs from 16 atoms x 6 preamble kinds x 2 frameworks x 2 samples",
               "thorough": "CH-P: <=6 chars; 4 frameworks"},
    "outside_claim": ["argv containing NUL (impossible in an OS argument vector) or lone surrogates", "non-UTF-8 terminals"],
    "assumptions": ["RAW3: a raw triple-quoted literal ends at the first unescaped run of three quotes, a backslash protects the next character (validated each run against ast.parse)",
                    "str.strip() contract: s = l.core.r with l, r whitespace and core not starting/ending with whitespace",
                    "compile_imports / _generate_code results are opaque strings for the preamble kernel"],
}
if isinstance(META.get("bounds"), dict) and "quick" in META["bounds"]:
    META["bounds"]["quick"] += '; preamble with runs of blank lines and trailing spaces'
