"""Declarative description of what a property check consists of."""


class CH:
    """A CrossHair-explored scenario (see vflib.che / vflib.harness)."""
    kind = "ch"

    def __init__(self, name, scenario, params=None, shards=1, timeout=120, path_timeout=30, mode="CH-E",
                 twin=True, note=""):
        self.name, self.scenario, self.params = name, scenario, params or {}
        self.shards, self.timeout, self.path_timeout = shards, timeout, path_timeout
        self.mode, self.twin, self.note = mode, twin, note


class SMT:
    """A direct SMT kernel: `fn(tier, seed) -> dict` (see vflib.smtpart for the result format)."""
    kind = "smt"

    def __init__(self, name, fn, params=None, timeout=300, mode="SMT-K", note=""):
        self.name, self.fn, self.params, self.timeout, self.mode, self.note = name, fn, params or {}, timeout, mode, note
