"""C07 — sample order and repetition do not change what is inferred.

CH-P: for every genome of n samples the real `generate()` runs under CrossHair on *symbolic* int/float/bool leaves, once
in the original order and once per permutation / duplication variant, all on the same leaves: a comparison between
leaf values anywhere in the real code (say, a de-duplication by ==) forks the path and the IRs are compared on each
branch.  CH-E: the registry level (process_meta_data + merge_models) is compared natively per variant."""
import copy
import itertools

from vflib import jsonsym
from vflib.parts import CH
from vflib.props import c01


def variants(n):
    perms = list(itertools.permutations(range(n)))
    out = [("perm", list(p)) for p in perms[1:]]
    for i in range(n):
        out.append(("dup", list(range(n)) + [i]))
        out.append(("dup2", list(range(n)) + [i, i]))
        out.append(("dup_front", [i] + list(range(n))))
    for p in perms[1:3]:
        for i in range(n):
            q = list(p)
            q.insert(1 + i % n, i)
            out.append(("dup_perm", q))
    return out


def scen_order(ch, params, out):
    from json_to_models.generator import MetadataGenerator
    from vflib import oracles, pipeline
    kinds = getattr(jsonsym, params.get("kinds", "KINDS_ORDER"))
    n = params.get("samples", 3)
    keys = params.get("keys", ["a"])
    slots = [(i, key) for i in range(n) for key in keys]
    cfgk = [dict() for _ in range(n)]
    first = ch.choose(f"kinds({slots[0]},{slots[1]})", [(a, b) for a in kinds for b in kinds], shard=True)
    for (i, key), kind in zip(slots[:2], first):
        cfgk[i][key] = kind
    for i, key in slots[2:]:
        cfgk[i][key] = ch.choose(f"kind(s{i}.{key})", kinds)
    merge = ch.choose("merge", params.get("merge", ["default"]))
    dkr = ch.choose("dict_keys_regex", params.get("dkr", [None]))
    samples = [jsonsym.sample(None, f"s{i}", cfgk[i], False) for i in range(n)]
    sym = params.get("symbolic_leaves", True)
    samples_sym = [jsonsym.sample(ch, f"s{i}", cfgk[i], True) for i in range(n)] if sym else None
    out.info = {"samples": samples}
    vs = variants(n)

    def run(ss):
        kw = {"str_registry": c01.str_registry(params["registry"])} if params.get("registry") else {}
        return pipeline.infer({"Root": copy.deepcopy(ss)}, merge=c01.merge_policy(merge), dkr=[dkr] if dkr else None, **kw)[1]
    try:
        c1 = oracles.canon_registry(run(samples))
    except Exception:
        return  # crashes of inference in the given order are C01/C08's subject
    for kind, order in vs:
        other = [samples[i] for i in order]
        try:
            c2 = oracles.canon_registry(run(other))
        except Exception as e:
            out.fail("variant_raises", f"{type(e).__name__}: {e} for {other} (original order fine: {samples})", "variant_raises")
            continue
        out.check(c1 == c2, "order_or_repetition_dependent",
                  lambda: f"samples {samples} -> {c1}\n but {kind} {order} -> {c2}", f"order_dependent:{kind}")
    if sym and not out.failures:
        try:
            with ch.traced():
                ir1 = MetadataGenerator(dict_keys_regex=[dkr] if dkr else None).generate(*samples_sym)
        except Exception:
            return
        k1 = oracles.canon_str(oracles.canon_ir(ir1))
        for kind, order in vs:
            if kind in ("dup2", "dup_perm") and not params.get("all_traced"):
                continue
            try:
                with ch.traced():
                    ir2 = MetadataGenerator(dict_keys_regex=[dkr] if dkr else None).generate(*[samples_sym[i] for i in order])
            except Exception as e:
                out.fail("variant_raises", f"{type(e).__name__}: {e} for order {order} of {samples}", "variant_raises")
                continue
            k2 = oracles.canon_str(oracles.canon_ir(ir2))
            out.check(k1 == k2, "order_or_repetition_dependent",
                      lambda: f"shape {samples} with leaf values {ch.finalize()}: {k1} but {kind} {order}: {k2}",
                      f"order_dependent_ir:{kind}")
            if out.failures:
                break


def scen_merge_order(ch, params, out):
    """registry level: n nested models, each introduced by its own sample; similarity = solver bits (any comparator);
    the partition into classes must not depend on the order of the samples (= registration order of the models)"""
    from json_to_models.generator import MetadataGenerator
    from json_to_models.registry import ModelCmp, ModelRegistry
    from vflib import oracles
    n = params.get("models", 4)
    perms = list(itertools.permutations(range(n)))[1:]
    perm = ch.choose("sample_order", perms, shard=True)
    bits = {}

    class TableCmp(ModelCmp):
        def cmp(self, fa, fb):
            ia = tuple(sorted(k for k in fa if k.startswith("id")))
            ib = tuple(sorted(k for k in fb if k.startswith("id")))
            if not ia or not ib:
                return False
            key = tuple(sorted((ia, ib)))
            if key not in bits:
                bits[key] = ch.flag(f"similar{key}")
            return bits[key]

    def run(order):
        samples = [{"rootmarker": 1, f"f{i}": {f"id{i}": 1, f"p{i}": "x"}} for i in order]
        gen = MetadataGenerator()
        reg = ModelRegistry(TableCmp())
        reg.process_meta_data(gen.generate(*samples), model_name="Root")
        reg.merge_models(gen)
        return sorted(tuple(sorted(k for k in m.type if k.startswith("id"))) for m in reg.models if any(k.startswith("id") for k in m.type))
    try:
        a = run(range(n))
        b = run(perm)
    except Exception as e:
        out.fail("merge_raises", f"{type(e).__name__}: {e} perm={perm} table={bits}", "merge_raises")
        return
    out.info = {"perm": list(perm), "table": {str(k): v for k, v in bits.items()}}
    out.check(a == b, "order_or_repetition_dependent",
              lambda: f"similarity table {bits}: samples in order 0..{n - 1} give classes {a}, in order {perm} give {b}", "order_dependent:merge_partition")


def scen_many_strings(ch, params, out):
    """one string field over many samples, at the literal limit: the same values once more (at the front, at the end, next to the
    original) or in another order must give the same type -- also when the values are the elements of a list"""
    from vflib import oracles, pipeline
    counts = params.get("counts", [1, 2, 14, 15, 16])
    vkinds = [("reverse",), ("rotate",)] + [("repeat", which, pos) for which in ("first", "last") for pos in ("front", "end", "adjacent")] + \
             [("repeat_all",)]
    c, variant = ch.choose("count,variant", [(c, v) for c in counts for v in vkinds], shard=True)
    where = ch.choose("values_are", ["field_of_each_sample", "elements_of_one_list"])
    long_one = ch.flag("one_value_has_20_characters")
    strs = [f"v{i:02d}" for i in range(c)]
    if long_one:
        strs[c // 2] = "L" * 20
    seq = list(strs)
    if variant[0] == "reverse":
        seq = seq[::-1]
    elif variant[0] == "rotate":
        seq = seq[1:] + seq[:1]
    elif variant[0] == "repeat_all":
        seq = seq + seq
    else:
        i = 0 if variant[1] == "first" else c - 1
        pos = {"front": 0, "end": len(seq), "adjacent": i + 1}[variant[2]]
        seq.insert(pos, strs[i])

    def run(values):
        samples = [{"a": v, "n": 1} for v in values] if where == "field_of_each_sample" else [{"a": list(values), "n": 1}]
        return oracles.canon_registry(pipeline.infer({"Root": samples})[1])
    out.info = {"count": c, "variant": list(variant), "where": where, "long": long_one}
    try:
        c1, c2 = run(strs), run(seq)
    except Exception as e:
        out.fail("variant_raises", f"{type(e).__name__}: {e} for {seq}", "variant_raises")
        return
    out.check(c1 == c2, "order_or_repetition_dependent", lambda: f"{c} strings {where}: {strs} -> {c1}\n but {variant}: {seq} -> {c2}",
              f"order_dependent:many_strings:{variant[0]}")


def _deep(t, seen=()):
    """IR type with model pointers expanded to the pointed model's fields (cycles cut)"""
    from json_to_models.dynamic_typing import ComplexType, ModelMeta, ModelPtr
    if isinstance(t, ModelPtr):
        t = t.type
    if isinstance(t, ModelMeta):
        if t.index in seen:
            return {"<cycle>": int}
        return {k: _deep(v, seen + (t.index,)) for k, v in t.type.items()}
    if isinstance(t, dict):
        return {k: _deep(v, seen) for k, v in t.items()}
    if isinstance(t, ComplexType):
        return t.replace([_deep(x, seen) for x in t])
    return t


def scen_merge_order_real(ch, params, out):
    """registry level with the REAL comparators (small thresholds, so that models over a 4-key universe reach them): three nested
    models of chosen key sets; the classes after merging must not depend on the order in which the samples introduce them"""
    from json_to_models.generator import MetadataGenerator
    from json_to_models.registry import ModelFieldsEquals, ModelFieldsNumberMatch, ModelFieldsPercentMatch, ModelRegistry
    U = ["k0", "k1", "k2", "k3", "k4"][:params.get("keys", 4)]
    subsets = [[k for j, k in enumerate(U) if m >> j & 1] for m in range(1, 2 ** len(U))]
    s0, s1 = ch.choose("key_sets(m0,m1)", [(a, b) for a in subsets for b in subsets], shard=True)
    s2 = ch.choose("key_set(m2)", subsets)
    sets = [s0, s1, s2]
    pol = ch.choose("policy", params.get("policies", ["p70_n2", "p50_n3", "exact_n2"]))
    perm = ch.choose("sample_order", params.get("orders", [(2, 1, 0), (1, 2, 0)]))

    def comparators():
        return {"p70_n2": [ModelFieldsPercentMatch(.7), ModelFieldsNumberMatch(2)], "p50_n3": [ModelFieldsPercentMatch(.5), ModelFieldsNumberMatch(3)],
                "exact_n2": [ModelFieldsEquals(), ModelFieldsNumberMatch(2)], "default": [],
                "n2": [ModelFieldsNumberMatch(2)]}[pol]      # number only: one-key children are never merged

    # each of the three models may own a one-key child object under the same key; the children have equal key sets (too small to
    # be merged by the policies used) but possibly different value types, so a merged parent must refer to both of them
    kids = ch.choose("children(x types)", [("int", "str", None), ("int", "int", "str"), ("str", None, "int"), ("int", "str", "float")]) \
        if params.get("children") else None
    KV = {"int": 1, "str": "long text " * 3, "float": 1.5}

    def body(i):
        o = {k: 1 for k in sets[i]}
        if kids and kids[i]:
            o["child"] = {"x": KV[kids[i]]}
        return o

    def run(order):
        from vflib import oracles
        samples = [{"rootmarker": 1, f"f{i}": body(i)} for i in order]
        gen = MetadataGenerator()
        reg = ModelRegistry(*comparators())
        reg.process_meta_data(gen.generate(*samples), model_name="Root")
        reg.merge_models(gen)
        part = sorted(tuple(sorted(m.type)) for m in reg.models if "rootmarker" not in m.type)
        deep = sorted(oracles.canon_str(oracles.canon_ir(_deep(m.type))) for m in reg.models if "rootmarker" not in m.type)
        return part, deep
    out.info = {"sets": sets, "policy": pol, "perm": list(perm), "children": kids}
    try:
        a = run((0, 1, 2))
        b = run(perm)
    except Exception as e:
        out.fail("merge_raises", f"{type(e).__name__}: {e} sets={sets} policy={pol} perm={perm}", "merge_raises")
        return
    out.check(a == b, "order_or_repetition_dependent",
              lambda: f"policy {pol}, nested key sets {sets}, children {kids}: samples in order 0,1,2 give classes {a}, in order {perm} give {b}", "order_dependent:merge_partition_real")


def parts(tier):
    if tier == "quick":
        return [CH("order", "vflib.props.c07:scen_order", {"kinds": "KINDS_ORDER", "samples": 3},
                   shards=16, timeout=170, path_timeout=60, mode="CH-P+CH-E"),
                CH("merge_order", "vflib.props.c07:scen_merge_order", {"models": 4}, shards=16, timeout=170, path_timeout=30),
                CH("merge_order_real_comparators", "vflib.props.c07:scen_merge_order_real", {"keys": 4}, shards=16, timeout=170, path_timeout=30),
                CH("merge_order_real_comparators_with_children", "vflib.props.c07:scen_merge_order_real", {"keys": 3, "children": True, "policies": ["n2", "p70_n2", "exact_n2"]},
                   shards=16, timeout=170, path_timeout=30),
                CH("order_literal_limits", "vflib.props.c07:scen_order", {"kinds": "KINDS_LITORDER", "samples": 3, "symbolic_leaves": False},
                   shards=16, timeout=170, path_timeout=60, mode="CH-E"),
                CH("order_datetime_strings", "vflib.props.c07:scen_order", {"kinds": "KINDS_DATEORDER", "samples": 3, "symbolic_leaves": False, "registry": "datetime"},
                   shards=16, timeout=170, path_timeout=60, mode="CH-E"),
                CH("many_strings_at_the_literal_limit", "vflib.props.c07:scen_many_strings", {}, shards=15, timeout=170, path_timeout=60, mode="CH-E"),
                CH("order_objects", "vflib.props.c07:scen_order", {"kinds": "KINDS_ORDER2", "samples": 3, "dkr": [None, "^\\d+$"], "symbolic_leaves": False},
                   shards=16, timeout=170, path_timeout=60, mode="CH-E")]
    return [CH("merge_order", "vflib.props.c07:scen_merge_order", {"models": 5}, shards=16, timeout=150, path_timeout=30),
            CH("merge_order_real_comparators_with_children", "vflib.props.c07:scen_merge_order_real", {"keys": 4, "children": True, "policies": ["n2", "p70_n2", "exact_n2", "p50_n3"]},
               shards=16, timeout=150, path_timeout=30),
            CH("order_datetime_strings", "vflib.props.c07:scen_order", {"kinds": "KINDS_DATEORDER", "samples": 3, "symbolic_leaves": False, "registry": "datetime"},
               shards=16, timeout=150, path_timeout=60, mode="CH-E"),
            CH("order_literal_limits", "vflib.props.c07:scen_order", {"kinds": "KINDS_LITORDER", "samples": 3, "symbolic_leaves": False, "merge": ["default", "p50n2"]},
               shards=16, timeout=150, path_timeout=60, mode="CH-E"),
            CH("many_strings_at_the_literal_limit", "vflib.props.c07:scen_many_strings", {"counts": [1, 2, 3, 8, 13, 14, 15, 16, 17, 30]}, shards=16, timeout=150, path_timeout=60,
               mode="CH-E"),
            CH("merge_order_real_comparators", "vflib.props.c07:scen_merge_order_real", {"keys": 5, "policies": ["p70_n2", "p50_n3", "exact_n2", "default"],
                                                                                          "orders": [(2, 1, 0), (1, 2, 0), (1, 0, 2), (0, 2, 1), (2, 0, 1)]},
               shards=16, timeout=150, path_timeout=30),
            CH("order", "vflib.props.c07:scen_order", {"kinds": "KINDS_SMALL", "samples": 3, "merge": ["default", "p50n2"], "all_traced": True},
               shards=16, timeout=150, path_timeout=90, mode="CH-P+CH-E"),
            CH("order_nested", "vflib.props.c07:scen_order", {"kinds": "KINDS_NEST", "samples": 3, "merge": ["default", "p50n2"],
                                                              "symbolic_leaves": False},
               shards=16, timeout=150, path_timeout=60, mode="CH-E"),
            CH("order_two_keys", "vflib.props.c07:scen_order", {"kinds": "KINDS_ORDER", "samples": 2, "keys": ["a", "b"], "merge": ["default", "p50n2"]},
               shards=16, timeout=150, path_timeout=60, mode="CH-P+CH-E")]


META = {
    "level": "exploration", "mode": "CH-P (all orders inferred on shared symbolic leaves) + CH-E (registry level)",
    "explanation": "for every genome of 3 samples every permutation / duplication variant is compared with the original order: at IR level on symbolic leaves under CrossHair, at registry level natively",
    "functions_encoded": ["MetadataGenerator.generate/_convert/_detect_type/merge_field_sets/_optimize_union", "DUnion.__init__/__eq__", "ModelRegistry.merge_models"],
    "symbolic_on_path": ["int/float/bool leaves (shared by all orders)", "kind of the varying field per sample", "merge policy"],
    "bounds": {"quick": "4 nested models x all similarity tables x all sample orders; 3 samples, 10 kinds on one varying key; 5 permutations + 9 duplications (+6 duplicate-and-permute natively)",
               "thorough": "3 samples x 10 kinds x 2 merge policies (all 26 variants traced); 3 samples x 14 nested kinds natively; 2 samples x 2 varying keys"},
    "outside_claim": ["more than 3 samples", "strings other than the atoms of the pool"],
    "assumptions": ["models are compared as sets of (field, optional?, type-as-set); references are compared by the key set of the target"],
}
if isinstance(META.get("bounds"), dict) and "quick" in META["bounds"]:
    META["bounds"]["quick"] += '; 3 models over a 4-key universe with the real comparators (3 policies, 2 orders); literal-limit kinds as samples; one string field over 1-16 samples with 9 order / repetition variants'
