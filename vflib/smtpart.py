"""Runs one SMT kernel part in its own process:  python -m vflib.smtpart <module>:<fn> <tier> <seed> <params-json> <out.json>

The kernel function returns a dict:
  obligations:int, discharged:int, queries:[{name,result,time_s,engine}], counterexamples:[{replay:"mod:fn", case:{..}, what:str}],
  inconclusive:[str], errors:[str] (translator / environment-model validation failures => harness error),
  functions_encoded:[str], bounds:{}, samples:[..], solver_calls:int, solver_time_s:float
"""
import importlib
import json
import sys
import time
import traceback


def main(argv):
    spec, tier, seed, params, out = argv
    mod, fn = spec.split(":")
    t0 = time.time()
    try:
        res = getattr(importlib.import_module(mod), fn)(tier, int(seed), json.loads(params))
    except Exception as e:
        res = {"obligations": 0, "discharged": 0, "errors": ["kernel crashed: " + "".join(
            traceback.format_exception(type(e), e, e.__traceback__))[-4000:]]}
    res["wall_s"] = round(time.time() - t0, 3)
    with open(out, "w") as f:
        json.dump(res, f, default=str)


if __name__ == "__main__":
    main(sys.argv[1:])
