"""In-memory environment for the real CLI (`json_to_models.cli`): fake files, captured stdout, exit status.

The real `argparse` parser, `Cli.parse_args`, `Cli.run`, `main`, the real `FileLoaders` (json / yaml / ini parsers)
and `process_path` run unchanged; only the two places that touch the OS are substituted:
  * `pathlib.Path.open` for paths under /vfs/  -> StringIO over the fake file table (missing -> FileNotFoundError);
  * the name `open` in module json_to_models.cli -> a writer into the same table that TRUNCATES ON OPEN (like "w").
The process-global default string-type registry is restored after each run.
"""
import contextlib
import io
import pathlib
import sys
import traceback

import json_to_models.cli as cli_mod
from json_to_models.dynamic_typing import registry as default_registry

VFS = "/vfs/"


class _Writer(io.StringIO):
    def __init__(self, fs, name, log):
        super().__init__()
        self._fs, self._name, self._log = fs, name, log
        fs[name] = ""          # "w" truncates at open time
        log.append(("open", name))

    def write(self, s):
        self._fs[self._name] = self._fs[self._name] + s
        self._log.append(("write", self._name, len(s)))
        return len(s)

    def close(self):
        self._log.append(("close", self._name))
        super().close()


class Result:
    def __init__(self):
        self.status = None
        self.stdout = ""
        self.stderr = ""
        self.exc = None
        self.fs = None
        self.oplog = []
        self.cli = None


@contextlib.contextmanager
def patched_env(fs, oplog):
    orig_open = pathlib.Path.open

    def fake_path_open(self, mode="r", *a, **k):
        s = str(self)
        if s.startswith(VFS):
            oplog.append(("read", s))
            if s not in fs:
                raise FileNotFoundError(2, "No such file or directory", s)
            return io.StringIO(fs[s])
        return orig_open(self, mode, *a, **k)

    orig_glob = pathlib.Path.glob

    def fake_glob(self, pattern, *a, **k):
        # directory listing of the fake file table: every file under `self` whose relative path matches `pattern`
        # component by component (no "**"); the order is the table's insertion order (a directory listing has no order contract)
        import fnmatch
        base = str(self).rstrip("/") + "/"
        if not base.startswith(VFS):
            return orig_glob(self, pattern, *a, **k)
        pat = str(pattern).split("/")
        found = []
        for name in fs:
            if name.startswith(base):
                rel = name[len(base):].split("/")
                if len(rel) == len(pat) and all(fnmatch.fnmatchcase(r, q) for r, q in zip(rel, pat)):
                    found.append(pathlib.Path(name))
        oplog.append(("glob", base + str(pattern), len(found)))
        return iter(found)

    def fake_open(name, mode="r", *a, **k):
        if "w" in mode:
            return _Writer(fs, str(name), oplog)
        if str(name) not in fs:
            raise FileNotFoundError(2, "No such file or directory", str(name))
        return io.StringIO(fs[str(name)])

    saved_types = list(default_registry.types)
    saved_replaces = set(default_registry.replaces)
    saved_argv = sys.argv
    pathlib.Path.open = fake_path_open
    pathlib.Path.glob = fake_glob
    cli_mod.open = fake_open
    try:
        yield
    finally:
        pathlib.Path.open = orig_open
        pathlib.Path.glob = orig_glob
        del cli_mod.open
        sys.argv = saved_argv
        default_registry.types[:] = saved_types
        default_registry.replaces.clear()
        default_registry.replaces.update(saved_replaces)


def run_main(argv, fs, hooks=None):
    """Run `json_to_models.cli.main()` as the console script would, with `argv` (without program name).

    hooks: optional callable(Result) context manager factory applied inside the patched environment.
    Status follows CPython: SystemExit(code) -> code (None -> 0, str -> 1); uncaught exception -> 1; return -> 0.
    """
    res = Result()
    res.fs = fs
    out, err = io.StringIO(), io.StringIO()
    with patched_env(fs, res.oplog):
        sys.argv = ["json2models"] + list(argv)
        with contextlib.redirect_stdout(out), contextlib.redirect_stderr(err):
            try:
                with (hooks() if hooks else contextlib.nullcontext()):
                    cli_mod.main()
                res.status = 0
            except SystemExit as e:
                c = e.code
                res.status = 0 if c is None else (c if isinstance(c, int) else 1)
            except Exception as e:
                res.status = 1
                res.exc = e
                err.write("".join(traceback.format_exception(type(e), e, e.__traceback__)))
    res.stdout, res.stderr = out.getvalue(), err.getvalue()
    return res


def run_cli_object(argv, fs):
    """parse_args + run on a Cli object (no print), returns (cli, text or exception)."""
    res = Result()
    with patched_env(fs, res.oplog):
        sys.argv = ["json2models"] + list(argv)
        c = cli_mod.Cli()
        err = io.StringIO()
        with contextlib.redirect_stderr(err):
            try:
                c.parse_args(list(argv))
                res.cli = c
                res.stdout = c.run()
                res.status = 0
            except SystemExit as e:
                res.status = e.code if isinstance(e.code, int) else 1
            except Exception as e:
                res.status = 1
                res.exc = e
        res.stderr = err.getvalue()
    res.fs = fs
    return res
