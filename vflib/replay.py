"""Replay of a counterexample in a plain interpreter (no CrossHair imported).

  python -m vflib.replay <file.json>   -> exit 1 and a description if the violation reproduces, 0 if it does not,
                                          4 if it reproduces only as a listed known finding.
"""
import importlib
import json
import sys
import traceback

from vflib import known
from vflib.che import Outcome, ReplayChooser, ReplayMismatch


def replay_file(path):
    with open(path) as f:
        cex = json.load(f)
    prop = cex["property"]
    if cex.get("kind", "ch") == "smt":
        mod, fn = cex["replay"].split(":")
        what = getattr(importlib.import_module(mod), fn)(cex["case"])
        if what:
            unknown, hits = known.split(prop, [{"fingerprint": cex.get("fingerprint"), "kind": "smt", "detail": what}], known.load())
            if not unknown:
                return 4, f"known finding {hits[0]['id']}: {what}"
            return 1, what
        return 0, "does not reproduce"
    mod, fn = cex["scenario"].split(":")
    scen = getattr(importlib.import_module(mod), fn)
    ch = ReplayChooser(cex["trace"])
    out = Outcome()
    try:
        scen(ch, cex.get("params", {}), out)
    except ReplayMismatch as e:
        return 0, f"does not reproduce (replay diverged: {e})"
    except Exception as e:
        return 5, "scenario raised in replay (harness error): " + "".join(traceback.format_exception(type(e), e, e.__traceback__))[-2000:]
    unknown, hits = known.split(prop, out.failures, known.load())
    if unknown:
        return 1, "; ".join(f"{u['kind']}: {u['detail']}" for u in unknown[:3])
    if hits:
        return 4, "only known findings: " + ", ".join(h["id"] for h in hits)
    return 0, "does not reproduce"


if __name__ == "__main__":
    code, msg = replay_file(sys.argv[1])
    print(msg)
    sys.exit(code)
