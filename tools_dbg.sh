#!/bin/bash
# tools_dbg.sh <prop> <module:scenario> '<params json>' [shard nshards timeout]   -- run one CrossHair shard in the foreground
cd /verif
export PYTHONPATH=/verif:/verif/stubs VF_SCENARIO=$2 VF_PARAMS="$3" VF_PROP=$1 VF_SHARD=${4:-0} VF_NSHARDS=${5:-1} VF_PATHLOG=/tmp/dbg.paths VF_CEXDIR=/tmp/dbgcex PYTHONHASHSEED=0
mkdir -p /tmp/dbgcex; rm -f /tmp/dbg.paths /tmp/dbgcex/*
.venv/bin/python -m vflib.chdriver vflib.harness ${7:-h} ${6:-120} 60 /tmp/dbg.json
python3 -c "
import json; d=json.load(open('/tmp/dbg.json')); print({k:v for k,v in d.items() if k!='messages'}); print(json.dumps(d.get('messages'))[:3000])"
wc -l /tmp/dbg.paths; ls /tmp/dbgcex | head -3
