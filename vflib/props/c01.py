"""C01 — generated models accept every sample they were inferred from (CH-P inference + CH-E emission).
   C02 shares this exploration (see c02.py)."""
import copy

from vflib import jsonsym
from vflib.parts import CH

FRAMEWORKS = ["base", "pydantic", "sqlmodel", "attrs", "dataclasses"]


def merge_policy(name):
    from json_to_models.registry import ModelFieldsEquals, ModelFieldsNumberMatch, ModelFieldsPercentMatch
    return {"default": None, "exact": [ModelFieldsEquals()],
            "p50n2": [ModelFieldsPercentMatch(0.5), ModelFieldsNumberMatch(2)]}[name]


def str_registry(name):
    from json_to_models.dynamic_typing import (BooleanString, FloatString, IntString, StringSerializableRegistry,
                                               register_datetime_classes)
    r = StringSerializableRegistry()
    if name == "none":
        return r
    r.add(cls=IntString)
    r.add(replace_types=(IntString,), cls=FloatString)
    r.add(cls=BooleanString)
    if name == "datetime":
        register_datetime_classes(r)
    return r


def explore(ch, params, out):
    """Shared exploration: returns dict(samples, gen, reg, cfg) or None if inference failed (failure recorded)."""
    from vflib import oracles, pipeline
    grammar = params.get("kinds") in ("GRAMMAR1", "GRAMMAR2")
    kinds = jsonsym.grammar1() if grammar else getattr(jsonsym, params.get("kinds", "KINDS_FULL"))
    wrapper = ch.choose("depth2_wrapper", ["wrap_list", "wrap_obj"]) if params.get("kinds") == "GRAMMAR2" else None
    n = params.get("samples", 2)
    keys = params.get("keys", ["a"])
    sym = params.get("symbolic_leaves", True)
    slots = [(i, key) for i in range(n) for key in keys]
    cfg = {"kinds": [dict() for _ in range(n)]}
    kinds2 = params.get("second_kinds", kinds)
    shapes = [(k1, k2) for k1 in kinds for k2 in kinds2]
    first = ch.choose(f"kinds({slots[0]},{slots[1]})", shapes, shard=True)
    for (i, key), kind in zip(slots[:2], first):
        cfg["kinds"][i][key] = kind
    for i, key in slots[2:]:
        cfg["kinds"][i][key] = ch.choose(f"kind(s{i}.{key})", kinds)
    cfg["merge"] = ch.choose("merge", params.get("merge", ["default"]))
    cfg["registry"] = ch.choose("registry", params.get("registries", ["default"]))
    cfg["dkf"] = ch.flag("dict_keys_fields=[a]") if params.get("dkf") else False
    cfg["dkr"] = ch.choose("dict_keys_regex", [None, "k", r"[kj]$"]) if params.get("dkr") else None
    # two decodings of the same genome: leaves from the chooser (symbolic under CrossHair) / fixed representatives
    mk = jsonsym.sample_from_descriptors if grammar else jsonsym.sample
    # the constant key `fix` may be absent from some samples (so that a sample can be the empty object)
    if wrapper:
        for i in range(n):
            cfg["kinds"][i] = {k: (wrapper, d) for k, d in cfg["kinds"][i].items()}
    has_fix = [ch.flag(f"s{i}.has_fix_key") if params.get("optional_fix") else True for i in range(n)]
    cfg["has_fix"] = has_fix

    def build_all(c, symb):
        res = []
        for i in range(n):
            o = mk(c, f"s{i}", cfg["kinds"][i], symb)
            if not has_fix[i]:
                o.pop("fix", None)
            res.append(o)
        return res
    samples_sym = build_all(ch, sym)
    concrete = build_all(None, False)
    out.info = {"cfg": cfg, "samples": concrete}
    kw = dict(str_registry=str_registry(cfg["registry"]), dkr=[cfg["dkr"]] if cfg["dkr"] else None,
              dkf=["a"] if cfg["dkf"] else None)
    from json_to_models.generator import MetadataGenerator
    ir_sym = None
    if sym:
        # CH-P: the real inference runs on CrossHair proxies; int/float/bool leaves stay symbolic, so this one
        # execution stands for every value of the leaves (a branch on a leaf value would fork the path)
        gen_t = MetadataGenerator(str_types_registry=kw["str_registry"], dict_keys_regex=kw["dkr"], dict_keys_fields=kw["dkf"])
        try:
            with ch.traced():
                ir_sym = gen_t.generate(*samples_sym)
        except Exception as e:
            out.fail("inference_raises", f"generate() raised {type(e).__name__}: {e} on kinds {cfg['kinds']}",
                     f"inference_raises:{type(e).__name__}")
            return None
    try:
        gen, reg, _ = pipeline.infer({"Root": copy.deepcopy(concrete)}, merge=merge_policy(cfg["merge"]), **kw)
    except Exception as e:
        out.fail("inference_raises", f"pipeline raised {type(e).__name__}: {e} on {concrete}",
                 f"inference_raises:{type(e).__name__}")
        return None
    if ir_sym is not None:
        native_ir = MetadataGenerator(str_types_registry=kw["str_registry"], dict_keys_regex=kw["dkr"],
                                      dict_keys_fields=kw["dkf"]).generate(*copy.deepcopy(concrete))
        out.check(oracles.canon_str(oracles.canon_ir(ir_sym)) == oracles.canon_str(oracles.canon_ir(native_ir)), "ir_depends_on_leaf_values",
                  lambda: f"IR on arbitrary leaves {oracles.canon_ir(ir_sym)} != IR on representative leaves {oracles.canon_ir(native_ir)} for {concrete}",
                  "ir_depends_on_leaf_values")
    return {"samples": concrete, "gen": gen, "reg": reg, "cfg": cfg}


def root_model(reg):
    roots = [m for m in reg.models if any(p.parent is None for p in m.pointers)]
    return roots[0] if roots else None


def pydantic_cause(e, sample, text):
    """Classifies a pydantic ValidationError for fingerprinting (which input class fails)."""
    import re
    try:
        errs = e.errors()
    except Exception:
        return type(e).__name__
    causes = set()
    for er in errs:
        v = sample
        try:
            for k in er["loc"]:
                v = v[k]
        except Exception:
            v = "?"
        if v is None and er["type"] in ("type_error.list", "type_error.dict") and \
                re.search(r"Optional\[(List\[None\]|Dict\[str, None\])\]", text):
            causes.add("null_for_optional_container_of_none")
        else:
            causes.add(er["type"])
    return "+".join(sorted(causes))


def scen_accept(ch, params, out):
    from vflib import oracles, pipeline
    st = explore(ch, params, out)
    if st is None:
        return
    samples, reg, cfg = st["samples"], st["reg"], st["cfg"]
    root = root_model(reg)
    # IR level
    for i, s in enumerate(samples):
        why = []
        out.check(oracles.inhabits_ir(s, root, why), "ir_rejects_sample",
                  lambda: f"sample {i} {s} not admitted by inferred root {root.type}: {why}; all samples {samples}",
                  "ir_rejects_sample")
    if out.failures:
        return
    fw = ch.choose("framework", params.get("frameworks", FRAMEWORKS))
    layout = ch.choose("layout", params.get("layouts", ["flat", "nested"]))
    if layout == "nested" and not pipeline.is_tree(reg):
        return
    max_literals = ch.choose("max_literals", params.get("max_literals", [10]))
    kwargs = {"max_literals": max_literals}
    if params.get("convert_unicode"):
        kwargs["convert_unicode"] = ch.choose("convert_unicode", params["convert_unicode"])
    if fw in ("attrs", "dataclasses") and params.get("converters") and ch.flag("post_init_converters"):
        kwargs["post_init_converters"] = True
    out.info.update(framework=fw, layout=layout)
    try:
        text = pipeline.emit(reg, fw, layout, **kwargs)
    except Exception as e:
        out.fail("emit_raises", f"{type(e).__name__}: {e} for {samples}", f"emit_raises:{type(e).__name__}")
        return
    try:
        ld = pipeline.load_module(text)
    except Exception as e:
        out.fail("module_does_not_load", f"{type(e).__name__}: {e}\n{text}", f"module_does_not_load:{type(e).__name__}:{fw}")
        return
    try:
        rootcls = ld.classes.get(root.name)
        if not out.check(rootcls is not None, "root_class_missing", text, "root_class_missing"):
            return
        tables = {}

        def table(cls):
            if cls not in tables:
                tables[cls] = pipeline.field_table(ld, cls, fw)
            return tables[cls]
        ctx = {"ld": ld, "framework": fw, "field_table": table, "keymap": lambda k: k}
        for i, s in enumerate(samples):
            why = []
            try:
                ok = oracles.inhabits_typing(s, rootcls, ctx, why)
            except Exception as e:
                ok = False
                why.append(f"annotation does not evaluate: {type(e).__name__}: {e}")
            out.check(ok, "emitted_rejects_sample",
                      lambda: f"[{fw}/{layout}] sample {i} {s} not accepted by emitted {root.name}: {why}\n{text}",
                      f"emitted_rejects_sample:{fw}")
        if fw in ("pydantic", "sqlmodel"):
            try:
                pipeline.pydantic_resolve_all(ld)
                for i, s in enumerate(samples):
                    rootcls.parse_obj(copy.deepcopy(s))
                out.checked += 1
            except Exception as e:
                out.fail("pydantic_parse_fails", f"[{fw}/{layout}] {type(e).__name__}: {e} for sample set {samples}\n{text}",
                         f"pydantic_parse_fails:{pydantic_cause(e, s, text)}")
    finally:
        ld.close()


def scen_cli_files(ch, params, out):
    """The samples arrive as several files through the real CLI (one `-m` with a path pattern, one `-m` per file, or `-l` with
    list files): every object of every file must be accepted by the printed model."""
    import json
    from vflib import clienv, oracles, pipeline
    kinds = getattr(jsonsym, params.get("kinds", "KINDS_SMALL"))
    k0, k1 = ch.choose("kinds(file0,file1)", [(a, b) for a in kinds for b in kinds], shard=True)
    fk = [k0, k1]
    if ch.flag("third_file"):
        fk.append(ch.choose("kind(file2)", params.get("third_kinds", kinds)))
    style = ch.choose("argument_style", ["pattern", "one_m_per_file", "list_pattern"])
    reverse = ch.flag("listing_order_reversed")
    fw = ch.choose("framework", params.get("frameworks", ["pydantic", "dataclasses"]))
    samples = [jsonsym.sample(None, f"s{i}", {"a": k}, False) for i, k in enumerate(fk)]
    names = [f"/vfs/d/f{i}.json" for i in range(len(fk))]
    order = list(range(len(fk)))[::-1] if reverse else list(range(len(fk)))
    fs = {}
    for i in order:
        fs[names[i]] = json.dumps([samples[i]] if style == "list_pattern" else samples[i])
    if style == "pattern":
        argv = ["-m", "Model", "/vfs/d/f?.json"]
    elif style == "list_pattern":
        argv = ["-l", "Model", "-", "/vfs/d/*.json"]
    else:
        argv = [x for i in order for x in ("-m", "Model", names[i])]
    argv += ["-f", fw]
    out.info = {"kinds": fk, "style": style, "reverse": reverse, "framework": fw, "samples": samples}
    res = clienv.run_main(argv, fs)
    ctx = lambda: f"files {[fs[n] for n in names]} argv {argv}"
    if not out.check(res.status == 0, "cli_fails", lambda: f"{res.stderr[-300:]} ({ctx()})", "cli_fails"):
        return
    text = res.stdout
    try:
        ld = pipeline.load_module(text)
    except Exception as e:
        out.fail("module_does_not_load", f"{type(e).__name__}: {e}\n{text}", f"module_does_not_load:{type(e).__name__}:{fw}")
        return
    try:
        rootcls = ld.classes.get("Model")
        if not out.check(rootcls is not None, "root_class_missing", text, "root_class_missing"):
            return
        tables = {}

        def table(cls):
            if cls not in tables:
                tables[cls] = pipeline.field_table(ld, cls, fw)
            return tables[cls]
        c = {"ld": ld, "framework": fw, "field_table": table, "keymap": lambda k: k}
        for i, smp in enumerate(samples):
            why = []
            try:
                ok = oracles.inhabits_typing(smp, rootcls, c, why)
            except Exception as e:
                ok = False
                why.append(f"annotation does not evaluate: {type(e).__name__}: {e}")
            out.check(ok, "emitted_rejects_sample", lambda: f"[cli/{fw}] object of file {i} {smp} not accepted by printed Model: {why} ({ctx()})\n{text}",
                      f"emitted_rejects_sample:cli:{fw}")
        if fw == "pydantic" and not out.failures:
            try:
                pipeline.pydantic_resolve_all(ld)
                for smp in samples:
                    rootcls.parse_obj(copy.deepcopy(smp))
                out.checked += 1
            except Exception as e:
                out.fail("pydantic_parse_fails", f"[cli] {type(e).__name__}: {e} ({ctx()})\n{text}", f"pydantic_parse_fails:cli:{pydantic_cause(e, smp, text)}")
    finally:
        ld.close()


def parts(tier):
    if tier == "quick":
        return [
            CH("pairs", "vflib.props.c01:scen_accept", {"kinds": "KINDS_FULL", "samples": 2, "keys": ["a"]},
               shards=16, timeout=170, path_timeout=30, mode="CH-P+CH-E"),
            CH("triples", "vflib.props.c01:scen_accept",
               {"kinds": "KINDS_INTERACT", "samples": 3, "keys": ["a"], "frameworks": ["pydantic", "attrs"]},
               shards=16, timeout=170, path_timeout=30, mode="CH-P+CH-E"),
            CH("datetime", "vflib.props.c01:scen_accept",
               {"kinds": "KINDS_DATE", "samples": 2, "keys": ["a"], "registries": ["datetime"], "frameworks": ["pydantic", "dataclasses", "attrs"]},
               shards=12, timeout=170, path_timeout=30, mode="CH-E"),
            CH("empty_samples", "vflib.props.c01:scen_accept",
               {"kinds": "KINDS_SMALL", "samples": 2, "keys": ["a"], "optional_fix": True, "frameworks": ["pydantic", "dataclasses"], "layouts": ["flat"]},
               shards=16, timeout=170, path_timeout=30, mode="CH-P+CH-E"),
            CH("padded_pseudo_type_strings", "vflib.props.c01:scen_accept",
               {"kinds": "KINDS_PAD", "samples": 2, "keys": ["a"], "frameworks": ["pydantic", "sqlmodel", "attrs"], "layouts": ["flat"], "symbolic_leaves": False},
               shards=16, timeout=170, path_timeout=30, mode="CH-E"),
            CH("two_nested_fields", "vflib.props.c01:scen_accept",
               {"kinds": "KINDS_NEST", "samples": 1, "keys": ["a", "b"], "merge": ["default", "p50n2"]},
               shards=16, timeout=170, path_timeout=30, mode="CH-P+CH-E"),
            CH("cli_several_files", "vflib.props.c01:scen_cli_files", {"kinds": "KINDS_SMALL", "third_kinds": ["absent", "s_abc", "o_k"]},
               shards=16, timeout=170, path_timeout=30, mode="CH-E"),
            CH("without_unicode_conversion", "vflib.props.c01:scen_accept",
               {"kinds": "KINDS_SMALL", "samples": 2, "keys": ["a"], "frameworks": ["pydantic", "dataclasses", "attrs"], "layouts": ["flat"],
                "convert_unicode": [False], "symbolic_leaves": False}, shards=16, timeout=170, path_timeout=30, mode="CH-E"),
            CH("odd_key_and_string_values", "vflib.props.c01:scen_accept",
               {"kinds": "KINDS_ODDSTR", "samples": 2, "keys": ["tab\tastral\U0001F600"], "frameworks": ["pydantic", "sqlmodel"], "layouts": ["flat"],
                "symbolic_leaves": False}, shards=16, timeout=170, path_timeout=30, mode="CH-E"),
            CH("key_reuse_shapes", "vflib.props.c01:scen_accept",
               {"kinds": "KINDS_SHAPES", "samples": 2, "keys": ["a"], "frameworks": ["pydantic", "dataclasses"], "layouts": ["flat"],
                "symbolic_leaves": False}, shards=16, timeout=170, path_timeout=30, mode="CH-E"),
            CH("key_reuse_shape_lists", "vflib.props.c01:scen_accept",
               {"kinds": "KINDS_SHAPE_LISTS", "samples": 1, "keys": ["a", "b"], "second_kinds": ["absent"], "frameworks": ["pydantic"], "layouts": ["flat"],
                "symbolic_leaves": False}, shards=16, timeout=170, path_timeout=30, mode="CH-E"),
        ]
    T = dict(shards=16, timeout=150, path_timeout=30)
    return [
        CH("pairs_inference_options", "vflib.props.c01:scen_accept",
           {"kinds": "KINDS_FULL", "samples": 2, "keys": ["a"], "merge": ["default", "exact", "p50n2"], "registries": ["default", "none"],
            "dkf": True, "dkr": True, "frameworks": ["pydantic"], "layouts": ["flat"]}, mode="CH-P+CH-E", **T),
        CH("pairs_emission_options", "vflib.props.c01:scen_accept",
           {"kinds": "KINDS_FULL", "samples": 2, "keys": ["a"], "max_literals": [10, 0, 1], "converters": True}, mode="CH-P+CH-E", **T),
        CH("triples", "vflib.props.c01:scen_accept", {"kinds": "KINDS_FULL", "samples": 3, "keys": ["a"], "frameworks": ["pydantic", "attrs"], "layouts": ["flat"]},
           mode="CH-P+CH-E", **T),
        CH("two_keys", "vflib.props.c01:scen_accept", {"kinds": "KINDS_SMALL", "samples": 2, "keys": ["a", "b"], "frameworks": ["pydantic", "dataclasses"], "layouts": ["flat"]},
           mode="CH-P+CH-E", **T),
        CH("three_nested_fields", "vflib.props.c01:scen_accept",
           {"kinds": "KINDS_NEST", "samples": 1, "keys": ["a", "b", "c"], "merge": ["default", "p50n2"], "frameworks": ["pydantic", "dataclasses"]}, mode="CH-P+CH-E", **T),
        CH("grammar_depth1_pairs", "vflib.props.c01:scen_accept",
           {"kinds": "GRAMMAR1", "samples": 2, "keys": ["a"], "frameworks": ["pydantic"], "layouts": ["flat"], "symbolic_leaves": False}, mode="CH-E", **T),
        CH("grammar_depth2_pairs", "vflib.props.c01:scen_accept",
           {"kinds": "GRAMMAR2", "samples": 2, "keys": ["a"], "frameworks": ["pydantic"], "layouts": ["flat"], "symbolic_leaves": False}, mode="CH-E", **T),
        CH("empty_samples", "vflib.props.c01:scen_accept",
           {"kinds": "KINDS_FULL", "samples": 2, "keys": ["a"], "optional_fix": True, "frameworks": ["pydantic", "dataclasses"], "layouts": ["flat"]}, mode="CH-P+CH-E", **T),
        CH("padded_pseudo_type_strings", "vflib.props.c01:scen_accept",
           {"kinds": "KINDS_PAD", "samples": 3, "keys": ["a"], "frameworks": ["pydantic", "sqlmodel", "attrs"], "layouts": ["flat"], "symbolic_leaves": False}, mode="CH-E", **T),
        CH("datetime", "vflib.props.c01:scen_accept",
           {"kinds": "KINDS_DATE", "samples": 3, "keys": ["a"], "registries": ["datetime"], "frameworks": ["pydantic", "dataclasses", "attrs", "sqlmodel"]},
           shards=12, timeout=150, path_timeout=30, mode="CH-E"),
    ]


META = {
    "level": "exploration",
    "mode": "CH-P (inference on symbolic leaves) + CH-E (emission, loading, oracle)",
    "explanation": "every shape genome within the bound is explored; scalar leaves are symbolic during inference and the IR is shown not to depend on them",
    "functions_encoded": ["MetadataGenerator.generate/_convert/_detect_type/merge_field_sets/optimize_type/_optimize_union",
                          "DUnion.__init__", "StringLiteral", "StringSerializableRegistry.resolve", "ModelRegistry.process_meta_data/merge_models/generate_names",
                          "compose_models(_flat)", "generate_code + 5 generator classes"],
    "symbolic_on_path": ["int/float/bool leaves (symbolic through generate())", "kind of each varying field per sample", "framework", "layout", "options"],
    "bounds": {"quick": "2 samples x 21 kinds on one varying key (441 shapes) x 5 frameworks x 2 layouts; 3 samples x 9 interaction kinds x {pydantic, attrs} x 2 layouts",
               "thorough": "2 samples x 23 kinds x 3 merge policies x 2 registries x dict-field options x 2 literal limits x converters; 3 samples x 23 kinds; 2 samples x 2 keys x 10 kinds; 1 sample x 3 nested fields x 14 kinds; 3 samples x 6 date kinds"},
    "outside_claim": ["acceptance by pydantic's own date/time parsers vs dateutil (third-party parsers)", "deeper nesting / more samples / more varying keys than the bound"],
    "assumptions": ["strings are atoms from a fixed pool", "nested layout only for tree-shaped model graphs",
                    "sqlmodel is the stub package /verif/stubs/sqlmodel"],
}
if isinstance(META.get("bounds"), dict) and "quick" in META["bounds"]:
    META["bounds"]["quick"] += '; 35 key-reuse object shapes (two keys re-used one level down) as 2 samples and as 2 list elements; 2-3 files through the real CLI (pattern / one -m per file / -l) x 11 kinds'
