"""SMT-S: how the generator quotes a string into Python source, and how Python reads it back — decided per code point by z3.

The *producer* expression is read from the current source AST of the generator (which quoting expression does the code
use for this piece of text?).  The *consumer* (CPython's string-literal decoder) and the library quoting functions
(`json.dumps`, `repr`) are environment: modelled here as integer formulas over one code point and re-validated against
the real functions on every run (boundary points, random points and solver-chosen points).

Round trip for one code point c under producer kind K:   decode(render_K(chr(c))) == chr(c)
Both maps are concatenation homomorphisms on strings (validated on random strings), so a string round-trips iff each
of its code points does.
"""
import ast
import inspect
import json
import random
import textwrap

import z3

MAXCP = 0x10FFFF


def is_surrogate(c):
    return z3.And(c >= 0xD800, c <= 0xDFFF)


def roundtrip_formula(kind, c):
    """z3 Bool: does code point c survive render+decode under producer `kind`?"""
    if kind == "fstring_dq":            # f'"{s}"'  — nothing is escaped
        return z3.And(c != 0x22, c != 0x5C, c != 0x0A, c != 0x0D, c != 0)     # NUL cannot occur in source text
    if kind == "fstring_sq":
        return z3.And(c != 0x27, c != 0x5C, c != 0x0A, c != 0x0D, c != 0)
    if kind == "json_ascii":            # json.dumps(s): non-ASCII -> \uXXXX, astral -> surrogate pair (two code units for Python)
        return c <= 0xFFFF
    if kind == "json_unicode":          # json.dumps(s, ensure_ascii=False): only ", \ and controls are escaped
        return z3.BoolVal(True)
    if kind == "repr":
        return z3.BoolVal(True)
    raise ValueError(kind)


def render(kind, s):
    """the real producer, for validation and replay"""
    if kind == "fstring_dq":
        return f'"{s}"'
    if kind == "fstring_sq":
        return f"'{s}'"
    if kind == "json_ascii":
        return json.dumps(s)
    if kind == "json_unicode":
        return json.dumps(s, ensure_ascii=False)
    if kind == "repr":
        return repr(s)
    raise ValueError(kind)


def real_roundtrip(kind, s):
    try:
        return ast.literal_eval(render(kind, s)) == s
    except Exception:
        return False


def classify_quote_expr(node, argname):
    """which producer is the expression `node` (an ast expression mentioning the variable `argname`)?"""
    src = ast.unparse(node)
    if isinstance(node, ast.JoinedStr):
        parts = node.values
        if (len(parts) == 3 and isinstance(parts[0], ast.Constant) and isinstance(parts[2], ast.Constant)
                and isinstance(parts[1], ast.FormattedValue) and ast.unparse(parts[1].value) == argname
                and parts[1].conversion == -1 and parts[1].format_spec is None):
            if parts[0].value == '"' and parts[2].value == '"':
                return "fstring_dq"
            if parts[0].value == "'" and parts[2].value == "'":
                return "fstring_sq"
        if (len(parts) == 1 and isinstance(parts[0], ast.FormattedValue) and parts[0].conversion == ord("r")
                and ast.unparse(parts[0].value) == argname):
            return "repr"
        return None
    if isinstance(node, ast.Call):
        f = ast.unparse(node.func)
        if f == "repr" and len(node.args) == 1 and ast.unparse(node.args[0]) == argname:
            return "repr"
        if f in ("json.dumps", "dumps") and node.args and ast.unparse(node.args[0]) == argname:
            kws = {k.arg: ast.unparse(k.value) for k in node.keywords}
            if set(kws) - {"ensure_ascii"}:
                return None
            if "ensure_ascii" in kws and kws["ensure_ascii"] not in ("True", "False"):
                return None        # data-dependent escaping mode: outside the translator's subset
            return "json_unicode" if kws.get("ensure_ascii") == "False" else "json_ascii"
    return None


def function_tree(fn):
    return ast.parse(textwrap.dedent(inspect.getsource(fn))).body[0]


def validate_models(kinds, seed, n_random=150):
    """differential validation of the per-code-point formulas against the real producer + ast.literal_eval."""
    rnd = random.Random(seed)
    pts = [0, 1, 8, 9, 0x0A, 0x0C, 0x0D, 0x1F, 0x20, 0x21, 0x22, 0x23, 0x27, 0x5B, 0x5C, 0x5D, 0x7E, 0x7F, 0x80, 0x85, 0xA0, 0xFF, 0x100,
           0x2028, 0x2029, 0xD7FF, 0xE000, 0xFFFE, 0xFFFF, 0x10000, 0x1F600, MAXCP]
    pts += [rnd.randint(0, 0xD7FF) for _ in range(n_random)] + [rnd.randint(0xE000, MAXCP) for _ in range(n_random // 2)]
    errors = []
    c = z3.Int("c")
    for kind in kinds:
        f = roundtrip_formula(kind, c)
        # two solver-chosen points per verdict as well
        for want in (True, False):
            s = z3.Solver()
            s.add(c >= 0, c <= MAXCP, z3.Not(is_surrogate(c)), f if want else z3.Not(f))
            if str(s.check()) == "sat":
                pts.append(s.model().eval(c, model_completion=True).as_long())
        for p in pts:
            model_says = z3.is_true(z3.simplify(z3.substitute(f, (c, z3.IntVal(p)))))
            if model_says != real_roundtrip(kind, chr(p)):
                errors.append(f"environment model {kind} wrong at U+{p:04X}: model {model_says}, CPython {not model_says}")
        # homomorphism on strings
        for _ in range(40):
            s_ = "".join(chr(rnd.choice(pts[:40] + [0x61, 0x62])) for _ in range(rnd.randint(0, 6)))
            s_ = "".join(ch for ch in s_ if not 0xD800 <= ord(ch) <= 0xDFFF)
            each = all(real_roundtrip(kind, ch) for ch in s_)
            if real_roundtrip(kind, s_) != each:
                errors.append(f"homomorphism assumption fails for {kind} on {s_!r}")
    return errors, len(pts)


def decide(kind, name):
    """-> query record + optional counterexample code point: exists c (valid scalar value) that does not round-trip?"""
    import time
    c = z3.Int("c")
    s = z3.Solver()
    s.set("timeout", 60000)
    s.add(c >= 0, c <= MAXCP, z3.Not(is_surrogate(c)), z3.Not(roundtrip_formula(kind, c)))
    t0 = time.time()
    r = str(s.check())
    rec = {"name": name, "result": r, "time_s": round(time.time() - t0, 3), "engine": "z3 " + z3.get_version_string(), "producer": kind}
    cp = s.model().eval(c, model_completion=True).as_long() if r == "sat" else None
    # vacuity twin: some code point does round-trip
    t = z3.Solver()
    t.add(c >= 0, c <= MAXCP, z3.Not(is_surrogate(c)), roundtrip_formula(kind, c))
    rec["twin"] = str(t.check())
    return rec, cp
