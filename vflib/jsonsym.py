"""Genome -> JSON decoder.  A *kind* names the shape of one field value; scalar leaves come from the chooser
(symbolic under CH-P, concrete otherwise); strings are atoms from a fixed pool (a symbolic `str` cannot enter
`int.__new__(IntString, s)`; DESIGN.md section 2)."""

ABSENT = "<absent>"
LONG = "x" * 20          # exactly MAX_STRING_LENGTH characters -> literal overflow
NEAR = "y" * 19          # longest string that still is a literal

KINDS_FULL = [
    "absent", "null", "bool", "int", "float", "s_abc", "s_xyz", "s_int", "s_float", "s_bool", "s_long", "s_empty",
    "l_empty", "l_null", "l_int", "l_int_str", "l_objs", "l_lists", "o_empty", "o_k", "o_kj", "l_obj_xy", "l_objs_xy_x",
    "s_bool_pad", "s_int_pad",
]
KINDS_INTERACT = ["absent", "null", "int", "s_abc", "s_int", "s_float", "s_bool", "l_empty", "l_null"]
KINDS_PAD = ["absent", "s_bool", "s_bool_pad", "s_False_nl", "s_int", "s_int_pad", "s_float_pad", "s_True", "s_abc"]
KINDS_DATE = ["s_date", "s_time", "s_datetime", "s_int", "s_abc", "null"]
KINDS_SMALL = ["absent", "null", "int", "float", "s_abc", "s_int", "l_empty", "l_int", "o_k", "l_objs", "l_lists_mixed"]
KINDS_LIT = ["absent", "null", "s_abc", "s_xyz", "s_near", "s_long", "s_uni", "s_esc", "s_int", "l_strs15", "l_strs16", "l_rep16",
             "l_strs8a", "l_strs8b", "s_pad_plain", "s_pad_plain2"]
KINDS_LITM = ["o_tags8a", "o_tags8b", "o_tags_rep", "o_tag_uni", "o_k"]
# literal sets at the 15-value limit: the same values seen again (in another sample, in another order) must not change the outcome
KINDS_LITORDER = ["absent", "s_abc", "l_strs15", "l_strs16", "l_rep16", "l_strs8a", "l_strs8b", "s_long"]
# strings that several date/time pseudo-types accept (with the datetime classes registered): the resolved type must not depend on
# which of them was seen first
KINDS_DATEORDER = ["absent", "s_date", "s_datetime", "s_time", "s_hm", "s_int", "s_abc", "s_date2"]
# short strings that mix a non-printable character with a character outside the BMP (an escaping routine that switches to
# \\uXXXX escapes for non-printable text writes the astral character as a surrogate pair)
KINDS_ODDSTR = ["absent", "null", "int", "s_abc", "s_zwj", "s_nl_astral", "s_tab"]
KINDS_SAMESTR = ["absent", "null", "s_abc", "s_xyz", "l_strs_ab", "o_same"]
KINDS_ORDER = ["absent", "null", "int", "float", "bool", "s_abc", "l_int", "o_k", "l_mixed_ref_int", "l_mixed_ref_str"]
# objects for the dict-keys options and objects that differ only in a leaf two levels down
KINDS_ORDER2 = ["absent", "o_digits", "o_digits_mixed", "o_deep_int", "o_deep_str", "o_deep_null", "s_abc"]
KINDS_DBG = ["int", "float"]
KINDS_NEST = ["absent", "null", "o_k", "o_kj", "l_objs", "l_obj_xy", "l_objs_xy_x", "o_xy", "o_xyz", "l_empty", "o_empty", "s_abc",
              "o_parent1", "o_parent2", "l_objs_xys_x", "l_lists_mixed", "l_objs_xu", "l_objs_xopt"]

# Objects over the two keys p, q that re-use the same keys one level down: each of p, q is absent (-), an int (i), a short string (s)
# or a sub-object holding p (P), q (Q) or both (B) as ints.  Two different shapes can have the same flattened key/type sequence
# ({"p": {"p": 1, "q": 2}} / {"p": {"p": 1}, "q": 2}), which is what distinguishes a structural hash from a textual one.
_SH_OPTS = ["-", "i", "s", "P", "Q", "B"]
KINDS_SHAPES = [f"sh:{a}{b}" for a in _SH_OPTS for b in _SH_OPTS if (a, b) != ("-", "-")]
# the same shapes as the two elements of one list
KINDS_SHAPE_LISTS = [f"shl:{a}{b}{c}{d}" for a in _SH_OPTS for b in _SH_OPTS for c in _SH_OPTS for d in _SH_OPTS
                     if (a, b) != ("-", "-") and (c, d) != ("-", "-") and (a, b) < (c, d)]

ATOMS = {"s_abc": "abc", "s_xyz": "xyz", "s_int": "12", "s_float": "1.5", "s_bool": "true", "s_long": LONG, "s_empty": "",
         "s_zwj": "\U0001F469\u200d\U0001F4BB", "s_nl_astral": "line\n\U0001F600", "s_tab": "a\tb",
         "s_date": "2020-01-02", "s_hm": "12:30", "s_date2": "2021-03-04", "s_time": "11:22:33", "s_datetime": "2020-01-02T11:22:33", "s_near": NEAR, "s_int2": "-7",
         "s_nan": "nan", "s_True": "True", "s_bool_pad": " true", "s_int_pad": " 12\n", "s_float_pad": "\t1.5 ", "s_False_nl": "False\n", "s_pad_plain": " kg", "s_pad_plain2": "lb\t", "s_uni": "\u041c\u043e\u0441\u043a\u0432\u0430 \u041a\u0438\u0457\u0432",
         "s_esc": '"' * 6 + "\\" * 5 + "\t\n"}
STRS16 = [f"v{i:02d}" for i in range(16)]


def leaf(ch, tag, typ, sym):
    if typ == "int":
        return ch.sym_int(tag + ":int") if sym else 7
    if typ == "float":
        return ch.sym_float(tag + ":float") if sym else 1.5
    if typ == "bool":
        return ch.sym_bool(tag + ":bool") if sym else True
    raise ValueError(typ)


def _shape(ch, tag, code, sym):
    obj = {}
    for key, c in zip("pq", code):
        t = f"{tag}.{key}"
        if c == "i":
            obj[key] = leaf(ch, t, "int", sym)
        elif c == "s":
            obj[key] = "abc"
        elif c in "PQB":
            obj[key] = {k: leaf(ch, f"{t}.{k}", "int", sym) for k in {"P": "p", "Q": "q", "B": "pq"}[c]}
    return obj


def build(ch, tag, kind, sym=False):
    """JSON value for `kind` (ABSENT for a missing key)."""
    if kind == "absent":
        return ABSENT
    if kind == "null":
        return None
    if kind in ("bool", "int", "float"):
        return leaf(ch, tag, kind, sym)
    if kind in ATOMS:
        return ATOMS[kind]
    if kind.startswith("sh:"):
        return _shape(ch, tag, kind[3:], sym)
    if kind.startswith("shl:"):
        return [_shape(ch, tag + "[0]", kind[4:6], sym), _shape(ch, tag + "[1]", kind[6:8], sym)]
    if kind == "l_mixed_ref_int":      # a list mixing an object with a scalar: the union holds a raw nested object
        return [{"ref": leaf(ch, tag + "[0].ref", "int", sym)}, leaf(ch, tag + "[1]", "int", sym)]
    if kind == "l_mixed_ref_str":
        return [{"ref": "n/a"}, leaf(ch, tag + "[1]", "int", sym)]
    if kind == "o_digits":
        return {"2019": leaf(ch, tag + ".2019", "float", sym), "2020": leaf(ch, tag + ".2020", "float", sym)}
    if kind == "o_digits_mixed":
        return {"2019": leaf(ch, tag + ".2019", "float", sym), "total": leaf(ch, tag + ".total", "float", sym)}
    if kind == "o_deep_int":
        return {"o": {"i": {"age": leaf(ch, tag + ".age", "int", sym)}, "k": "v"}, "n": 1}
    if kind == "o_deep_str":
        return {"o": {"i": {"age": "unknown"}, "k": "v"}, "n": 1}
    if kind == "o_deep_null":
        return {"o": {"i": {"age": None}, "k": "v"}, "n": 1}
    if kind == "l_strs_ab":
        return ["abc", "xyz"]
    if kind == "o_same":
        return {"state": "abc", "reason": "abc"}
    if kind == "l_strs15":
        return list(STRS16[:15])
    if kind == "l_strs16":
        return list(STRS16)
    if kind == "l_rep16":
        return ["on", "off"] * 8
    if kind == "l_strs8a":
        return list(STRS16[:8])
    if kind == "l_strs8b":
        return list(STRS16[4:12])
    if kind == "l_empty":
        return []
    if kind == "l_null":
        return [None]
    if kind == "l_int":
        return [leaf(ch, tag + "[0]", "int", sym)]
    if kind == "l_int_str":
        return [leaf(ch, tag + "[0]", "int", sym), "abc"]
    if kind == "l_objs":
        return [{"x": leaf(ch, tag + "[0].x", "int", sym)}, {"x": "q", "y": None}]
    if kind == "l_lists_mixed":
        return [[leaf(ch, tag + "[0][0]", "int", sym), leaf(ch, tag + "[0][1]", "float", sym)], [leaf(ch, tag + "[1][0]", "int", sym)]]
    if kind == "l_lists":
        return [[leaf(ch, tag + "[0][0]", "int", sym)], []]
    if kind == "o_empty":
        return {}
    if kind == "o_k":
        return {"k": leaf(ch, tag + ".k", "int", sym)}
    if kind == "o_kj":
        return {"k": "12", "j": leaf(ch, tag + ".j", "float", sym)}
    if kind == "l_obj_xy":
        return [{"x": leaf(ch, tag + "[0].x", "int", sym), "y": leaf(ch, tag + "[0].y", "int", sym)}]
    if kind == "l_objs_xy_x":
        return [{"x": leaf(ch, tag + "[0].x", "int", sym), "y": leaf(ch, tag + "[0].y", "int", sym)},
                {"x": leaf(ch, tag + "[1].x", "int", sym)}]
    if kind == "l_objs_xu":        # x is int in one object and a short string in another
        return [{"x": leaf(ch, tag + "[0].x", "int", sym), "y": 1}, {"x": "a", "y": 2}]
    if kind == "l_objs_xopt":      # x is int or missing
        return [{"x": leaf(ch, tag + "[0].x", "int", sym), "y": 1}, {"y": 2}]
    if kind == "l_objs_xys_x":
        return [{"x": leaf(ch, tag + "[0].x", "int", sym), "y": "abc"}, {"x": leaf(ch, tag + "[1].x", "int", sym)}, {"x": 1, "y": None}]
    if kind == "o_xy":
        return {"x": leaf(ch, tag + ".x", "int", sym), "y": leaf(ch, tag + ".y", "int", sym)}
    if kind == "o_xyz":
        return {"x": leaf(ch, tag + ".x", "int", sym), "y": "abc", "z": None}
    if kind == "o_tags8a":
        return {"id": 1, "kind": "t", "tags": list(STRS16[:8])}
    if kind == "o_tags8b":
        return {"id": 2, "kind": "t", "tags": list(STRS16[4:12])}
    if kind == "o_tags_rep":
        return {"id": 3, "kind": "t", "tags": ["on", "off", "on"]}
    if kind == "o_tag_uni":
        return {"id": 4, "kind": ATOMS["s_uni"], "tags": [ATOMS["s_esc"]]}
    if kind == "o_parent1":
        return {"n": leaf(ch, tag + ".n", "int", sym), "m": "abc",
                "c": {"x": leaf(ch, tag + ".c.x", "int", sym), "y": leaf(ch, tag + ".c.y", "float", sym), "z": None}}
    if kind == "o_parent2":
        return {"n": leaf(ch, tag + ".n", "int", sym), "m": "xyz",
                "c": {"x": leaf(ch, tag + ".c.x", "int", sym), "y": leaf(ch, tag + ".c.y", "float", sym), "w": "12"}}
    if kind == "o_deep":
        return {"k": {"z": leaf(ch, tag + ".k.z", "int", sym)}, "m": [{"z": None}]}
    raise ValueError(kind)


def sample(ch, tag, kinds_by_key, sym=False, fixed=True):
    obj = {}
    if fixed:
        obj["fix"] = leaf(ch, tag + ".fix", "int", sym) if ch is not None or not sym else 7
    for key, kind in kinds_by_key.items():
        v = build(ch, f"{tag}.{key}", kind, sym)
        if v is not ABSENT:
            obj[key] = v
    return obj


# ------------------------------------------------------------------------------------------------ grammar-based values
G_SCALARS = ["null", "int", "float", "bool", "s_abc", "s_xyz", "s_int", "s_float", "s_long"]


def grammar1():
    """all depth-1 value descriptors: a scalar, or a list / object of up to two scalars (plus absent)"""
    out = [("absent",)] + [("scalar", k) for k in G_SCALARS] + [("list",), ("obj",)]
    out += [("list", a) for a in G_SCALARS] + [("list", a, b) for a in G_SCALARS for b in G_SCALARS if a <= b]
    out += [("obj", a) for a in G_SCALARS] + [("obj", a, b) for a in G_SCALARS for b in G_SCALARS]
    return out


def build_descriptor(ch, tag, d, sym=False):
    if d[0] == "absent":
        return ABSENT
    if d[0] == "wrap_list":        # depth 2: a list holding one depth-1 value
        v = build_descriptor(ch, tag + "[0]", d[1], sym)
        return [] if v is ABSENT else [v]
    if d[0] == "wrap_obj":         # depth 2: an object holding one depth-1 value under key "in" (plus a constant sibling)
        v = build_descriptor(ch, tag + ".in", d[1], sym)
        return {"sib": "abc"} if v is ABSENT else {"in": v, "sib": "abc"}
    if d[0] == "scalar":
        return build(ch, tag, d[1], sym)
    items = [build(ch, f"{tag}.{i}", k, sym) for i, k in enumerate(d[1:])]
    if d[0] == "list":
        return items
    return dict(zip(["x", "y"], items))


def sample_from_descriptors(ch, tag, desc_by_key, sym=False):
    obj = {"fix": leaf(ch, tag + ".fix", "int", sym)}
    for key, d in desc_by_key.items():
        v = build_descriptor(ch, f"{tag}.{key}", d, sym)
        if v is not ABSENT:
            obj[key] = v
    return obj
