#!/usr/bin/env python3
"""python3-vt tools_validate.py : validate MANIFEST.json and evidence/*.json against the schemas in /root/.vp."""
import glob, json, sys
import jsonschema
ok = True
def v(path, schema):
    global ok
    try:
        jsonschema.validate(json.load(open(path)), json.load(open(schema)))
        print("valid", path)
    except Exception as e:
        ok = False
        print("INVALID", path, str(e)[:500])
v("/verif/MANIFEST.json", "/root/.vp/MANIFEST.schema.json")
for f in sorted(glob.glob("/verif/evidence/*.json")):
    v(f, "/root/.vp/EVIDENCE.schema.json")
sys.exit(0 if ok else 1)
