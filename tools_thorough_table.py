#!/usr/bin/env python3
"""Writes section 10.8 of DESIGN.md (between markers) from a tools_runall.sh thorough log: tools_thorough_table.py <log>"""
import re, sys
BEGIN, END = "<!-- THOROUGH-TABLE-BEGIN -->", "<!-- THOROUGH-TABLE-END -->"
rows = {}
for line in open(sys.argv[1]):
    m = re.match(r"(C\d\d) thorough exit=(\d+) wall=(\d+)s .*paths/queries=(\d+) distinct=\d+ obligations=(\d+)/(\d+) exhaustive=(\w+) violations=(\d+)", line)
    if m:
        rows[m.group(1)] = m.groups()
lines = [BEGIN, "", "| property | exit | wall | paths / queries | shards and SMT obligations discharged exhaustively | violations |", "|---|---|---|---|---|---|"]
tot = 0
for k in sorted(rows):
    p, ex, wall, paths, a, b, exh, viol = rows[k]
    tot += int(wall)
    lines.append(f"| {p} | {ex} | {int(wall)//60} min {int(wall)%60} s | {int(paths):,} | {a} of {b} | {viol} |")
lines += ["", f"Total wall time {tot//3600} h {tot%3600//60} min for {len(rows)} properties, run one after the other on 16 cores.", END]
p = "/verif/DESIGN.md"
s = open(p).read()
text = "\n".join(lines)
if BEGIN in s:
    s = s[:s.index(BEGIN)] + text + s[s.index(END) + len(END):]
else:
    s = s.rstrip("\n") + "\n\n### 10.8 Thorough tier: last complete pass on the final tree\n\n" \
        "Every `thorough_cmd` was run end to end (`vp run`, one property after the other, evidence kept apart from /verif/evidence) on 2026-09-28 against the\n" \
        "final /repo. A shard that did not exhaust its tree within its wall budget counts as not exhaustive; nothing it did not explore is claimed.\n" \
        "Earlier thorough passes of the same day are where the two C03 defects (fixes 5570ffe, 7b3b3e0) and the two C04 oracle false alarms were found.\n\n" + text + "\n"
open(p, "w").write(s)
print(len(rows), "rows")
