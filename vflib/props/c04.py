"""C04 — emitted classes denote exactly the inferred model graph (per-program translation validation, CH-E)."""
from vflib.parts import CH

CLEAN = __import__("re").compile(r"^[a-z][a-z0-9]*(_[a-z0-9]+)*$")


def validate_program(em, reg, prog, out, ctx):
    """field-by-field comparison of every loaded class with an independent rendering of its model."""
    import typing
    from json_to_models.dynamic_typing import DDict, DList, DOptional, Null, Unknown
    from vflib import emitcheck, oracles, pipeline
    from vflib.pipeline import MISSING
    fw = prog["framework"]
    kw = prog["kwargs"]
    cu = kw.get("convert_unicode", True)
    max_literals = kw.get("max_literals", 10)
    meta_on = kw.get("meta", False)
    reserved = emitcheck.reserved_words(fw)
    tag = f"{fw}/{prog['layout']}"

    def class_of(model):
        return em.class_for_model(model)

    for m in reg.models:
        cls = class_of(m)
        if not out.check(cls is not None, "model_without_class", lambda: f"[{tag}] no (unique) class for model {m.name} ({ctx()})\n{em.text}",
                         "model_without_class"):
            continue
        table = em.table(cls)
        expected_keys = [k for k, t in m.type.items() if not (fw in oracles.PYDANTIC_STYLE and (t is Unknown or t is Null))]
        out.check(len(table) == len(expected_keys), "field_count",
                  lambda: f"[{tag}] class {cls.__name__} has fields {list(table)} for keys {expected_keys} ({ctx()})\n{em.text}", "field_count")
        # map key -> field: by recoverable key first, else by position-independent name rule
        by_key = {rec["key"]: f for f, rec in table.items() if rec["key"] is not None}
        for key in expected_keys:
            ir = m.type[key]
            fname = by_key.get(key)
            if fname is None:
                cands = [f for f, rec in table.items() if rec["key"] is None and
                         emitcheck.fold(f.rstrip("_"), cu) == emitcheck.fold(key, cu)]
                import re as _re
                from unidecode import unidecode as _ud
                stripped = _re.sub(r"\W", "", _ud(key) if cu else key)
                if stripped[:1].isdigit():      # documented: a leading digit (after removing non-word characters) is spelled out
                    cands = [f for f, rec in table.items() if rec["key"] is None and f.startswith(emitcheck.ONES[int(stripped[0])] + "_")]
                fname = cands[0] if len(cands) == 1 else (key if key in table else None)
            if not out.check(fname is not None, "key_without_field",
                             lambda: f"[{tag}] {cls.__name__}: key {key!r} has no identifiable field among {list(table)} ({ctx()})\n{em.text}",
                             "key_without_field"):
                continue
            rec = table[fname]
            # name rule
            if CLEAN.match(key) and key not in reserved:
                out.check(fname == key, "clean_key_renamed", lambda: f"[{tag}] clean key {key!r} became field {fname!r} ({ctx()})", "clean_key_renamed")
            # original key recoverable exactly whenever the name differs
            can_carry = fw in oracles.PYDANTIC_STYLE or (fw in ("attrs", "dataclasses") and meta_on)
            if fname != key and can_carry:
                out.check(rec["key"] == key, "original_key_lost",
                          lambda: f"[{tag}] {cls.__name__}.{fname}: original key {key!r} not recoverable (carried: {rec['key']!r}) ({ctx()})\n{em.text}",
                          f"original_key_lost:{fw}")
            if fname == key or not can_carry:
                out.check(rec["key"] in (None, key), "spurious_original_key",
                          lambda: f"[{tag}] {cls.__name__}.{fname}: carries key {rec['key']!r} for key {key!r}", "spurious_original_key")
            # annotation
            try:
                expected = oracles.ir_to_typing(ir, fw, max_literals, class_of)
                same = rec["annotation"] == expected
            except Exception as e:
                same, expected = False, f"{type(e).__name__}: {e}"
            out.check(same, "annotation_differs",
                      lambda: f"[{tag}] {cls.__name__}.{fname}: emitted {rec['raw']!r} = {rec['annotation']!r}, inferred {ir} renders as {expected!r} ({ctx()})",
                      f"annotation_differs:{fw}")
            # default exactly when optional
            if fw != "base":
                opt = isinstance(ir, DOptional)
                out.check(rec["has_default"] == opt, "default_iff_optional",
                          lambda: f"[{tag}] {cls.__name__}.{fname}: optional={opt} but has_default={rec['has_default']} ({ctx()})\n{em.text}",
                          f"default_iff_optional:{fw}")
                if opt and rec["has_default"]:
                    want = [] if isinstance(ir.type, DList) else ({} if isinstance(ir.type, DDict) else None)
                    d = rec["default"]
                    out.check(d == want and type(d) is type(want), "wrong_default",
                              lambda: f"[{tag}] {cls.__name__}.{fname}: default {d!r}, expected {want!r} for {ir} ({ctx()})", f"wrong_default:{fw}")


def scen_tv(ch, params, out):
    from vflib import emitcheck, progsym
    prog = progsym.choose_program(ch, params)
    out.info = {k: prog[k] for k in ("k", "template", "framework", "layout", "kwargs")}
    cu = prog["kwargs"].get("convert_unicode", True)
    if len({emitcheck.fold(k, cu) for k in prog["k"]}) != len(set(prog["k"])):
        out.checked += 1
        return      # folded-equal keys: outside the documented key domain (C11), nothing to compare
    b = progsym.build(prog, out)
    if b is None or b == "skip":
        out.failures[:] = []   # inference / emission failures are C01 / C03's subject
        out.checked += 1
        return
    gen, reg, text = b
    ctx = lambda: f"keys {prog['k']} template {prog['template']} options {prog['kwargs']}"
    try:
        em = emitcheck.Emitted(text, reg, prog["framework"], prog["layout"])
    except Exception:
        out.checked += 1
        return      # not loadable: C03's subject
    try:
        validate_program(em, reg, prog, out, ctx)
        out.info["classes"] = len(em.ld.classes)
    finally:
        em.close()
    if params.get("second_emission") and not out.failures:
        # the same model graph rendered once more under another configuration: the second program must denote the graph under
        # ITS configuration (nothing about a type's rendering may be remembered from the first one)
        from vflib import pipeline
        fw2 = ch.choose("second_framework", progsym.FRAMEWORKS)
        kw2 = dict(prog["kwargs"])
        kw2["max_literals"] = ch.choose("second_max_literals", [10, 0, 1])
        for k in ("meta", "post_init_converters"):
            kw2.pop(k, None)
        if fw2 in ("attrs", "dataclasses"):
            kw2["meta"] = True
        prog2 = dict(prog, framework=fw2, kwargs=kw2)
        out.info["second"] = {"framework": fw2, "kwargs": kw2}
        ctx2 = lambda: f"SECOND emission {fw2} {kw2} from the registry first rendered as {prog['framework']} {prog['kwargs']}; keys {prog['k']} template {prog['template']}"
        try:
            text2 = pipeline.emit(reg, fw2, prog["layout"], **kw2)
            em2 = emitcheck.Emitted(text2, reg, fw2, prog["layout"])
        except Exception:
            out.checked += 1
            return
        try:
            validate_program(em2, reg, prog2, out, ctx2)
        finally:
            em2.close()


def parts(tier):
    if tier == "quick":
        return [
            CH("k1k2", "vflib.props.c04:scen_tv", {"pool": "KEY_POOL_QUICK", "styled": "k1k2", "templates": ["flat_scalars", "nested_object", "list_of_objects", "optional_pseudo"]},
               shards=16, timeout=170, path_timeout=30),
            CH("options", "vflib.props.c04:scen_tv", {"pool": "KEY_POOL_QUICK", "styled": "k3", "options": True,
                                                      "templates": ["nested_object", "list_of_objects", "optional_pseudo", "two_similar_children", "recursive"]},
               shards=16, timeout=170, path_timeout=30),
            CH("odd_characters", "vflib.props.c04:scen_tv", {"pool": "KEY_POOL_ODD", "styled": "k3",
                                                             "templates": ["nested_object", "list_of_objects", "odd_values_nested", "odd_string_values"]},
               shards=8, timeout=170, path_timeout=30),
            CH("symbol_prefixed_any_position", "vflib.props.c04:scen_tv", {"pool": "KEY_POOL_PREFIXED", "styled": "any1",
                                                                           "templates": ["nested_object", "list_of_objects", "optional_containers"]},
               shards=16, timeout=170, path_timeout=30),
            CH("second_emission_same_registry", "vflib.props.c04:scen_tv", {"pool": "KEY_POOL_QUICK", "styled": "k3", "second_emission": True,
                                                                            "layouts": ["flat"],
                                                                            "templates": ["flat_scalars", "odd_string_values", "list_of_objects"]},
               shards=16, timeout=170, path_timeout=30),
        ]
    from vflib import progsym
    return [
        CH("k1k2", "vflib.props.c04:scen_tv", {"pool": "KEY_POOL_FULL", "styled": "k1k2", "templates": progsym.TEMPLATES_FULL}, shards=16, timeout=150, path_timeout=30),
        CH("options", "vflib.props.c04:scen_tv", {"pool": "KEY_POOL_FULL", "styled": "k3", "options": True, "templates": progsym.TEMPLATES_FULL},
           shards=16, timeout=150, path_timeout=30),
        CH("second_emission_same_registry", "vflib.props.c04:scen_tv", {"pool": "KEY_POOL_QUICK", "styled": "k3", "second_emission": True, "options": True,
                                                                        "templates": ["flat_scalars", "odd_string_values", "list_of_objects", "nested_object"]},
           shards=16, timeout=150, path_timeout=30),
    ]


def finish_evidence(evidence, results):
    cov = evidence["coverage"]
    cov["programs"] = cov["distinct_nontrivial"]
    cov["disagreements_checked"] = sum(s.get("checks", 0) for s in cov["samples"] if isinstance(s, dict))


META = {
    "level": "translation_validation", "mode": "CH-E",
    "explanation": "every emitted program of the explored genome is loaded and compared class by class, field by field, with an independent rendering of the model graph",
    "functions_encoded": ["GenericModelCodeGenerator.fields/field_data/generate", "PydanticModelCodeGenerator.field_data/_get_field_kwargs/_filter_fields",
                          "AttrsModelCodeGenerator.field_data", "DataclassModelCodeGenerator.field_data", "SqlModelCodeGenerator", "metadata_to_typing and all to_typing_code methods",
                          "sort_fields", "_generate_code / indent"],
    "symbolic_on_path": ["styled keys", "structural template", "framework", "layout", "meta / converters / max_literals / convert_unicode bits"],
    "bounds": {"thorough": "62-key pool: all pairs x 7 templates x 5 frameworks x 2 layouts; nested-model key x 7 templates x option bits", "quick": "24-key pool; pairs of root keys x 4 templates x 5 frameworks x 2 layouts; nested-model key x 5 templates x option bits"},
    "outside_claim": ["keys outside the pool", "exact spelling of the sanitised name for unclean keys (only: identifier, derived from the key by case/punctuation folding, identity on clean keys)"],
    "assumptions": ["the independent renderer ir_to_typing implements the documented style rules (actual types under pydantic/sqlmodel, no Literal under attrs, Literal iff fewer than max_literals)",
                    "base output has no defaults by design (bare annotations)"],
}
if isinstance(META.get("bounds"), dict) and "quick" in META["bounds"]:
    META["bounds"]["quick"] += '; a second emission from the same registry under another framework / literal limit (24 keys x 3 templates x 5 x 3)'
