"""C16 — the command line is a faithful front end to the library pipeline.

  CH-P lookup   : the real dict_lookup / iter_json_file on a CrossHair *symbolic* lookup string (alphabet a, b, '.', '-',
                  length <= 5) against successive indexing by the dotted segments.
  CH-E assembly : how a fixed pool of sample objects is split over files / lookups / repeated -m / -l / formats is chosen
                  by the solver; Cli.models_data must be the concatenation in argument order and the printed code must
                  equal an independent library call.
  CH-E options  : every CLI option is mapped to the library call built from an independent table.
"""
import copy
import json

from vflib.parts import CH

POOL = [
    {"id": 1, "name": "alpha", "tags": ["x", "y"], "owner": {"login": "a", "age": "3"}},
    {"id": 2, "name": "beta", "tags": [], "owner": {"login": "b", "age": "4", "site": None}},
    {"id": 3, "name": "gamma", "score": "1.5", "owner": {"login": "c", "age": "5"}},
    {"id": 4, "name": "delta", "score": "2", "when": "2020-01-02"},
]
DOC = {"a": {"a": [{"x": 1}], "b": {"a": {"y": 2}, "b": 5}}, "b": [{"z": 1}, {"z": 2}], "ab": {"q": 1}, "-": {"dash": 1}}


def spec_lookup(doc, lookup):
    """well-formed lookups only: '-' or '' = whole document; k1.k2...kn with non-empty segments other than '-'"""
    if lookup in ("", "-"):
        return ("ok", doc)
    segs = lookup.split(".")
    if any(s == "" or s == "-" for s in segs):
        return ("unspecified", None)
    d = doc
    for s in segs:
        if not isinstance(d, dict) or s not in d:
            return ("error", None)
        d = d[s]
    return ("ok", d)


def scen_lookup(ch, params, out):
    from json_to_models.cli import dict_lookup, iter_json_file
    n = params.get("maxlen", 5)
    s = ch.sym_str("lookup", n, 127)
    alphabet = "ab.-"
    with ch.traced():
        for c in s:
            if c not in alphabet:
                out.checked += 1
                return
        kind, want = spec_lookup(DOC, s)
        if kind == "unspecified":
            out.checked += 1
            return
        try:
            got = ("ok", dict_lookup(DOC, s))
        except (KeyError, TypeError, IndexError):
            got = ("error", None)
        ok = got[0] == kind and (kind == "error" or got[1] is want)
        items_ok = True
        if ok and kind == "ok":
            try:
                items = list(iter_json_file(DOC, s))
                expect = want if isinstance(want, list) else ([want] if isinstance(want, dict) else None)
                items_ok = expect is not None and len(items) == len(expect) and all(a is b for a, b in zip(items, expect))
            except TypeError:
                items_ok = not isinstance(want, (list, dict))
    out.check(ok, "lookup_selects_wrong_subdocument", lambda: f"lookup {ch.finalize()} -> {got}, expected {kind} {want}", "lookup_wrong")
    out.check(items_ok, "lookup_items_wrong", lambda: f"lookup {ch.finalize()}", "lookup_items_wrong")


def library_code(models, framework="base", structure="flat", merge=None, max_literals=10, converters=False, convert_unicode=True,
                 dkr=None, dkf=None, datetime_=False, disabled=(), preamble=None, extra_kwargs=None):
    """independent library-pipeline call for the same samples and options"""
    from json_to_models.dynamic_typing import (BooleanString, FloatString, IntString, StringSerializableRegistry,
                                               register_datetime_classes)
    from json_to_models.registry import ModelFieldsEquals, ModelFieldsNumberMatch, ModelFieldsPercentMatch
    from vflib import pipeline
    reg = StringSerializableRegistry()
    reg.add(cls=IntString)
    reg.add(replace_types=(IntString,), cls=FloatString)
    reg.add(cls=BooleanString)
    for d in disabled:
        reg.remove_by_name(d)
    if datetime_:
        register_datetime_classes(reg)
    cmps = None
    if merge:
        cmps = []
        for m in merge:
            name, *args = m.split("_")
            if name == "percent":
                cmps.append(ModelFieldsPercentMatch(float(args[0]) / 100) if args else ModelFieldsPercentMatch())
            elif name == "number":
                cmps.append(ModelFieldsNumberMatch(int(args[0])) if args else ModelFieldsNumberMatch())
            else:
                cmps.append(ModelFieldsEquals())
    import re
    gen, r, _ = pipeline.infer(copy.deepcopy(models), merge=cmps, str_registry=reg,
                               dkr=[re.compile(f"^(?:{x})$") for x in dkr] if dkr else None, dkf=dkf)
    kw = dict(post_init_converters=converters, convert_unicode=convert_unicode, max_literals=max_literals)
    kw.update(extra_kwargs or {})
    return pipeline.emit(r, framework, structure, preamble=preamble, **kw)


def body_of(text):
    return text.split('\n"""\n', 1)[1] if '\n"""\n' in text else text


def scen_assembly(ch, params, out):
    from vflib import clienv
    fmt = ch.choose("format", ["json", "yaml"], shard=False)
    plan_kinds = ["one_file_list", "one_file_per_sample", "two_files", "same_file_two_lookups", "wrapped_lookup", "two_models",
                  "same_file_twice_same_lookup", "legacy_l", "object_and_list", "list_with_empty_objects"]
    plan = ch.choose("plan", plan_kinds, shard=True)
    fs = {}
    argv = []
    expected = {}

    def put(path, doc):
        fs[path] = json.dumps(doc)

    ext = fmt
    if plan == "one_file_list":
        put(f"/vfs/a.{ext}", POOL)
        argv = ["-m", "Root", f"/vfs/a.{ext}"]
        expected = {"Root": POOL}
    elif plan == "one_file_per_sample":
        order = ch.choose("order", [[0, 1, 2, 3], [3, 1, 0, 2], [2, 3, 1, 0]])
        for i in order:
            put(f"/vfs/s{i}.{ext}", POOL[i])
            argv += ["-m", "Root", f"/vfs/s{i}.{ext}"]
        expected = {"Root": [POOL[i] for i in order]}
    elif plan == "two_files":
        k = 1 + ch.pick("split", 3)
        put(f"/vfs/a.{ext}", POOL[:k])
        put(f"/vfs/b.{ext}", POOL[k:])
        first_b = ch.flag("b_first")
        files = [f"/vfs/b.{ext}", f"/vfs/a.{ext}"] if first_b else [f"/vfs/a.{ext}", f"/vfs/b.{ext}"]
        for f in files:
            argv += ["-m", "Root", "-", f] if ch.flag("explicit_dash") else ["-m", "Root", f]
        expected = {"Root": (POOL[k:] + POOL[:k]) if first_b else POOL}
    elif plan == "same_file_two_lookups":
        put(f"/vfs/d.{ext}", {"first": POOL[:2], "second": {"deep": POOL[2:]}})
        rev = ch.flag("second_first")
        pairs = [("second.deep", POOL[2:]), ("first", POOL[:2])] if rev else [("first", POOL[:2]), ("second.deep", POOL[2:])]
        same_model = ch.flag("same_model_name")
        for i, (lk, objs) in enumerate(pairs):
            name = "Root" if same_model else f"Root{i}"
            argv += ["-m", name, lk, f"/vfs/d.{ext}"]
            expected.setdefault(name, [])
            expected[name] = expected[name] + objs
    elif plan == "wrapped_lookup":
        depth = 1 + ch.pick("depth", 3)
        doc = POOL
        path = []
        for d in range(depth):
            key = ["data", "items", "list"][d]
            doc = {key: doc, "count": 4}
            path.insert(0, key)
        put(f"/vfs/w.{ext}", doc)
        argv = ["-m", "Root", ".".join(path), f"/vfs/w.{ext}"]
        expected = {"Root": POOL}
    elif plan == "two_models":
        put(f"/vfs/a.{ext}", POOL[:2])
        put(f"/vfs/b.{ext}", [{"title": "t", "price": "1.5", "owner": {"login": "z", "age": "9"}}])
        argv = ["-m", "Users", f"/vfs/a.{ext}", "-m", "Items", f"/vfs/b.{ext}"]
        if ch.flag("items_first"):
            argv = argv[3:] + argv[:3]
            expected = {"Items": json.loads(fs[f"/vfs/b.{ext}"]), "Users": POOL[:2]}
        else:
            expected = {"Users": POOL[:2], "Items": json.loads(fs[f"/vfs/b.{ext}"])}
    elif plan == "same_file_twice_same_lookup":
        put(f"/vfs/a.{ext}", POOL[:2])
        argv = ["-m", "Root", f"/vfs/a.{ext}", "-m", "Root", f"/vfs/a.{ext}"]
        expected = {"Root": POOL[:2] + POOL[:2]}
    elif plan == "list_with_empty_objects":
        # an empty object is a sample like any other (it makes every field optional); directly and behind a lookup
        docs = [POOL[0], {}, POOL[1], {}]
        if ch.flag("behind_lookup"):
            put(f"/vfs/a.{ext}", {"data": {"items": docs}})
            argv = ["-m", "Root", "data.items", f"/vfs/a.{ext}"]
        else:
            put(f"/vfs/a.{ext}", docs)
            argv = ["-m", "Root", f"/vfs/a.{ext}"]
        expected = {"Root": docs}
    elif plan == "legacy_l":
        put(f"/vfs/d.{ext}", {"first": POOL[:2]})
        put(f"/vfs/e.{ext}", POOL[2:])
        argv = ["-l", "Root", "first", f"/vfs/d.{ext}", "-m", "Root", f"/vfs/e.{ext}"]
        expected = {"Root": POOL[2:] + POOL[:2]}     # -m arguments are taken before -l arguments (models + models_lists)
    else:  # object_and_list
        put(f"/vfs/o.{ext}", POOL[0])
        put(f"/vfs/l.{ext}", POOL[1:])
        argv = ["-m", "Root", f"/vfs/o.{ext}", "-m", "Root", f"/vfs/l.{ext}"]
        expected = {"Root": POOL}
    argv += ["-i", fmt]
    fw = ch.choose("framework", ["base", "pydantic"])
    argv += ["-f", fw]
    use_o = ch.flag("-o")
    if use_o:
        argv += ["-o", "/vfs/out.py"]
    res = clienv.run_main(argv, fs)
    out.info = {"argv": argv, "plan": plan}
    ctx = lambda: f"argv={argv}"
    if not out.check(res.status == 0, "cli_fails", lambda: f"{res.stderr[-400:]} ({ctx()})", "cli_fails"):
        return
    obj = clienv.run_cli_object([a for a in argv if a != "-o" and a != "/vfs/out.py"], dict(fs))
    if obj.cli is not None:
        got = {k: list(v) for k, v in obj.cli.models_data.items()}
        out.check(got == expected and list(got) == list(expected), "samples_not_concatenated_in_argument_order",
                  lambda: f"models_data {got} expected {expected} ({ctx()})", "samples_assembly_wrong")
    lib = library_code(expected, framework=fw)
    text = fs.get("/vfs/out.py") if use_o else res.stdout
    printed_nl = "" if use_o else "\n"
    out.check(text is not None and body_of(text) == lib + printed_nl, "cli_differs_from_library",
              lambda: f"CLI code differs from the library pipeline on the same samples ({ctx()})\nCLI:\n{body_of(text or '')[:600]}\nLIB:\n{lib[:600]}",
              "cli_differs_from_library")
    if use_o:
        out.check(res.stdout.strip() == "Output is written to /vfs/out.py", "stdout_with_o", lambda: res.stdout[:200], "stdout_with_o")
        ref = clienv.run_main([a for a in argv if a not in ("-o", "/vfs/out.py")], {k: v for k, v in fs.items() if k != "/vfs/out.py"})
        out.check(body_of(ref.stdout) == body_of(text or "") + "\n", "o_text_differs_from_stdout", lambda: ctx(), "o_differs")


def scen_ini(ch, params, out):
    """-i ini: the samples are what Python's configparser (its documented defaults: basic %(name)s interpolation, DEFAULT section
    inherited by every section, keys lower-cased) reports for the file -- one object per file, or the section a lookup selects"""
    import configparser
    from vflib import clienv
    use_default, use_refs = ch.choose("default_section,references", [(a, b) for a in (False, True) for b in (False, True)], shard=True)
    lookup = ch.choose("lookup", ["-", "server", "client"])
    percent = ch.flag("escaped_percent_sign")
    fw = ch.choose("framework", ["base", "pydantic"])
    lines = []
    if use_default:
        lines += ["[DEFAULT]", "timeout = 30", "Owner = ops", ""]
    lines += ["[server]", "host = example.org", "port = 8080"]
    lines += ["admin_port = %(port)s", "url = http://%(host)s:%(port)s/"] if use_refs else ["admin_port = 8081", "url = http://example.org/"]
    if percent:
        lines += ["load = 50%%"]
    lines += ["", "[client]", "retries = 3", "Verbose = true"]
    if use_refs and use_default:
        lines += ["note = owned by %(owner)s"]
    text = "\n".join(lines) + "\n"
    cp = configparser.ConfigParser()
    cp.read_string(text)
    doc = {sec: dict(cp.items(sec)) for sec in cp.sections()}
    expected = [doc] if lookup == "-" else [doc[lookup]]
    fs = {"/vfs/conf.ini": text}
    argv = ["-m", "Config"] + ([lookup] if lookup != "-" else []) + ["/vfs/conf.ini", "-i", "ini", "-f", fw]
    out.info = {"default": use_default, "refs": use_refs, "lookup": lookup, "percent": percent}
    ctx = lambda: f"argv={argv} file={text!r}"
    obj = clienv.run_cli_object(argv, dict(fs))
    if not out.check(obj.status == 0 and obj.cli is not None, "cli_fails", lambda: f"{obj.exc!r} {obj.stderr[-300:]} ({ctx()})", "cli_fails"):
        return
    got = list(obj.cli.models_data.get("Config", []))
    out.check(got == expected, "ini_samples_wrong", lambda: f"samples {got} expected {expected} ({ctx()})", "ini_samples_wrong")
    lib = library_code({"Config": expected}, framework=fw)
    out.check(body_of(obj.stdout) == lib, "cli_differs_from_library", lambda: f"({ctx()})\nCLI:\n{body_of(obj.stdout)[:500]}\nLIB:\n{lib[:500]}", "cli_differs_from_library")


def scen_patterns(ch, params, out):
    """path patterns on a REAL temporary directory (path expansion is the OS-facing part): the literal directory part of the
    argument may contain characters that are special in patterns, and the samples are those of every file whose name matches"""
    import os
    import shutil
    import tempfile
    from fnmatch import fnmatchcase
    from vflib import clienv
    dirname, pattern = ch.choose("directory,pattern", [(d, p) for d in ["plain", "export[1]", "sp ace", "a-b.c", "[x]"]
                                                       for p in ["*.json", "?.json", "a*.json", "*/x.json"]], shard=True)
    # (only * and ? make an argument a pattern -- process_path's documented rule; brackets are literal everywhere)
    style = ch.choose("argument", ["-m", "-l"])
    fw = ch.choose("framework", ["base", "pydantic"])
    root = tempfile.mkdtemp(prefix="vf-c16-")
    try:
        d = os.path.join(root, dirname)
        os.makedirs(os.path.join(d, "sub"))
        files = {"a.json": [POOL[0]], "b.json": POOL[1:3], "ab.json": [POOL[3]], "c.txt": "not json", "sub/x.json": [POOL[2]]}
        for name, doc in files.items():
            with open(os.path.join(d, name), "w") as f:
                f.write(doc if isinstance(doc, str) else json.dumps(doc))
        if "/" in pattern:
            matching = [n for n in files if "/" in n and fnmatchcase(n.split("/")[1], pattern.split("/")[1])]
        else:
            matching = [n for n in files if "/" not in n and fnmatchcase(n, pattern)]
        expected = [o for n in matching for o in files[n]]
        arg = os.path.join(d, pattern)
        argv = (["-m", "Root", arg] if style == "-m" else ["-l", "Root", "-", arg]) + ["-f", fw]
        out.info = {"dir": dirname, "pattern": pattern, "style": style}
        ctx = lambda: f"directory {dirname!r} pattern {pattern!r} argv tail {argv[:2] + [os.path.join(dirname, pattern)]}"
        obj = clienv.run_cli_object(argv, {})
        if not out.check(obj.status == 0 and obj.cli is not None, "cli_fails", lambda: f"{obj.exc!r} {obj.stderr[-300:]} ({ctx()})", "cli_fails"):
            return
        got = list(obj.cli.models_data.get("Root", []))
        key = lambda o: json.dumps(o, sort_keys=True)
        out.check(sorted(map(key, got)) == sorted(map(key, expected)), "pattern_samples_wrong",
                  lambda: f"files matching: {matching}; samples taken: {got}; expected (any file order): {expected} ({ctx()})", "pattern_samples_wrong")
        if got:
            lib = library_code({"Root": got}, framework=fw)
            out.check(body_of(obj.stdout) == lib, "cli_differs_from_library", lambda: f"({ctx()})\nCLI:\n{body_of(obj.stdout)[:500]}\nLIB:\n{lib[:500]}",
                      "cli_differs_from_library")
    finally:
        shutil.rmtree(root, ignore_errors=True)


OPTION_TABLE = [
    # (argv fragment, kwargs for library_code)
    ([], {}),
    (["-s", "nested"], {"structure": "nested"}),
    (["-s", "flat"], {"structure": "flat"}),
    (["--merge", "exact"], {"merge": ["exact"]}),
    (["--merge", "percent_50"], {"merge": ["percent_50"]}),
    (["--merge", "percent"], {"merge": ["percent"]}),
    # fractional percents on either side of a ratio that occurs in the samples (child / child2 share 2 of 4 names = 50 %)
    (["--merge", "percent_50.4"], {"merge": ["percent_50.4"]}),
    (["--merge", "percent_49.6"], {"merge": ["percent_49.6"]}),
    (["--merge", "number_2", "percent_90"], {"merge": ["number_2", "percent_90"]}),
    (["--merge", "number"], {"merge": ["number"]}),
    (["--max-strings-literals", "0"], {"max_literals": 0}),
    (["--max-strings-literals", "1"], {"max_literals": 1}),
    (["--max-strings-literals", "3"], {"max_literals": 3}),
    (["--max-strings-literals", "16"], {"max_literals": 16}),
    (["--datetime"], {"datetime_": True}),
    (["--strings-converters"], {"converters": True}),
    (["--no-unidecode"], {"convert_unicode": False}),
    (["--disable-unicode-conversion"], {"convert_unicode": False}),
    (["--dkr", "[a-z]+"], {"dkr": ["[a-z]+"]}),
    (["--dict-keys-regex", "log.*", r"\d+"], {"dkr": ["log.*", r"\d+"]}),
    (["--dkf", "owner"], {"dkf": ["owner"]}),
    (["--dict-keys-fields", "owner", "stats"], {"dkf": ["owner", "stats"]}),
    (["--disable-str-serializable-types", "float"], {"disabled": ["float"]}),
    (["--disable-str-serializable-types", "int", "BooleanString"], {"disabled": ["int", "BooleanString"]}),
    (["--code-generator-kwargs", "meta=true"], {"extra_kwargs": {"meta": True}, "only": ("attrs", "dataclasses")}),
    (["--code-generator-kwargs", "max_literals=2"], {"max_literals": 2}),
    (["--preamble", "# hello"], {"preamble": "# hello"}),
    (["--preamble", "  \n"], {}),
]
OPT_SAMPLES = [
    {"id": "1", "kind": "a", "flag": "true", "ratio": "1.5", "when": "2020-01-02", "naïve": 1, "owner": {"login": "x", "k1": 1},
     "stats": {"1": 1, "2": 2}, "splitkeys": {"7": 1, "logz": 2}, "logs": {"loga": "x", "logb": "y"}, "child": {"v": 1, "w": 2, "z": 3}, "child2": {"v": 1, "w": 2, "u": 3}},
    {"id": "2", "kind": "b", "flag": "false", "ratio": "2", "when": "2020-01-03", "naïve": 2, "owner": {"login": "y", "k2": 2},
     "stats": {"3": 1}, "splitkeys": {"8": 1, "logy": 2}, "logs": {"logc": "z"}, "child": {"v": 1, "w": 2, "z": 3}, "child2": {"v": 1, "w": 2, "u": 3}},
    {"id": "3", "kind": "c", "flag": "true", "ratio": "3", "when": "2020-01-04", "naïve": 3, "owner": {"login": "z"},
     "stats": {}, "splitkeys": {"9": 3, "logx": 4}, "logs": {}, "child": {"v": 1, "w": 2, "z": 3}, "child2": {"v": 1, "w": 2, "u": 3}},
]


def scen_options(ch, params, out):
    from vflib import clienv, pipeline
    i = ch.pick("option_1", len(OPTION_TABLE), shard=True)
    j = ch.pick("option_2", len(OPTION_TABLE))
    fw = ch.choose("framework", ["base", "pydantic", "attrs", "dataclasses", "sqlmodel"])
    frag1, kw1 = OPTION_TABLE[i]
    frag2, kw2 = OPTION_TABLE[j]
    flag1 = frag1[0] if frag1 else None
    flag2 = frag2[0] if frag2 else None
    norm = lambda f: {"--dkr": "--dict-keys-regex", "--dkf": "--dict-keys-fields", "--no-unidecode": "--disable-unicode-conversion"}.get(f, f)
    if i != j and flag1 and flag2 and norm(flag1) == norm(flag2):
        out.checked += 1
        return      # the same option twice: argparse keeps the last one; not part of the claim
    if i != j and (set(kw1) & set(kw2)) - {"only", "extra_kwargs"}:
        out.checked += 1
        return      # two options that set the same generator argument: precedence is not part of the claim
    kw = {}
    argv_opts = list(frag1)
    kw.update({k: v for k, v in kw1.items() if k != "only"})
    if j != i:
        argv_opts += list(frag2)
        for k, v in kw2.items():
            if k == "only":
                continue
            if k == "extra_kwargs":
                kw.setdefault("extra_kwargs", {}).update(v)
            else:
                kw[k] = v
    for only in (kw1.get("only"), kw2.get("only") if j != i else None):
        if only and fw not in only:
            out.checked += 1
            return
    if kw.get("structure") == "nested":
        g, r, _ = pipeline.infer({"Root": copy.deepcopy(OPT_SAMPLES)})
        # tree-shapedness depends on merge options; decided after the library call below
    fs = {"/vfs/in.json": json.dumps(OPT_SAMPLES)}
    argv = ["-m", "Root", "/vfs/in.json", "-f", fw] + argv_opts
    out.info = {"argv": argv}
    ctx = lambda: f"argv={argv}"
    try:
        lib = library_code({"Root": OPT_SAMPLES}, framework=fw, **kw)
        lib_err = None
    except Exception as e:
        lib, lib_err = None, e
    res = clienv.run_main(argv, fs)
    if lib_err is not None:
        out.check(res.status != 0, "cli_succeeds_where_library_fails", lambda: f"library raised {type(lib_err).__name__}: {lib_err} ({ctx()})",
                  "cli_succeeds_where_library_fails")
        return
    if not out.check(res.status == 0, "cli_fails", lambda: f"{res.stderr[-400:]} ({ctx()})", "cli_fails"):
        return
    out.check(body_of(res.stdout) == lib + "\n", "cli_differs_from_library",
              lambda: f"({ctx()}) library kwargs {kw}\nCLI:\n{body_of(res.stdout)[:700]}\nLIB:\n{lib[:700]}", "cli_differs_from_library:" + str(flag1) + "+" + str(flag2 if j != i else None))


def scen_three_roots(ch, params, out):
    """three -m roots with small key sets and a merge option: CLI output == library pipeline on the same samples"""
    from vflib import clienv
    pool = [["k0", "k1", "k2"], ["k0", "k1", "k3"], ["k2", "k3"], ["k0"], ["k1", "k2", "k3"], ["k0", "k1", "k2", "k3"]]
    pol = ch.choose("merge_option", ["number_2", "percent_50", "percent_70"], shard=False)
    sets = [ch.choose(f"root{i}_keys", pool, shard=(i == 0)) for i in range(3)]
    fs, argv, models = {}, [], {}
    for i in range(3):
        doc = [{k: 1 for k in sets[i]}]
        fs[f"/vfs/r{i}.json"] = json.dumps(doc)
        argv += ["-m", f"Root{i}", f"/vfs/r{i}.json"]
        models[f"Root{i}"] = doc
    argv += ["--merge", pol]
    res = clienv.run_main(argv, fs)
    out.info = {"argv": argv, "sets": sets}
    if not out.check(res.status == 0, "cli_fails", lambda: f"{res.stderr[-300:]} argv={argv}", "cli_fails"):
        return
    lib = library_code(models, merge=[pol])
    out.check(body_of(res.stdout) == lib + "\n", "cli_differs_from_library",
              lambda: f"argv={argv} key sets {sets}\nCLI:\n{body_of(res.stdout)[:500]}\nLIB:\n{lib[:500]}", "cli_differs_from_library:three_roots")


def parts(tier):
    q = tier == "quick"
    return [CH("lookup", "vflib.props.c16:scen_lookup", {"maxlen": 4 if q else 6}, shards=1, timeout=170 if q else 200, path_timeout=60, mode="CH-P"),
            CH("assembly", "vflib.props.c16:scen_assembly", {}, shards=10, timeout=170 if q else 200, path_timeout=30),
            CH("options", "vflib.props.c16:scen_options", {}, shards=13, timeout=170 if q else 200, path_timeout=30),
            CH("ini_input", "vflib.props.c16:scen_ini", {}, shards=4, timeout=170 if q else 200, path_timeout=30),
            CH("path_patterns_on_a_real_directory", "vflib.props.c16:scen_patterns", {}, shards=15, timeout=170 if q else 200, path_timeout=30),
            CH("three_roots_merge", "vflib.props.c16:scen_three_roots", {}, shards=6, timeout=170 if q else 200, path_timeout=30)]


META = {
    "level": "exploration", "mode": "CH-P (symbolic lookup string) + CH-E",
    "explanation": "lookup: differential symbolic execution of dict_lookup against successive indexing; assembly/options: every split plan / option pair through the real CLI on an in-memory file table vs an independent library call",
    "functions_encoded": ["dict_lookup", "iter_json_file", "Cli.parse_args", "Cli.setup_models_data", "Cli.set_args", "Cli.validate", "Cli.run", "process_path", "FileLoaders.json/yaml", "main"],
    "symbolic_on_path": ["lookup string (CrossHair symbolic, <=4/6 chars over a,b,.,-)", "split plan and its selectors", "input format", "option pair", "framework", "-o"],
    "bounds": {"quick": "lookup strings <= 4 chars; 9 split plans (<=4 files) x 2 formats x 2 frameworks x -o; all pairs of 26 option fragments x 5 frameworks",
               "thorough": "lookup strings <= 6 chars"},
    "outside_claim": ["real processes, file systems and glob ordering (in-memory substitutes; glob order is unspecified by the property)", "ini input (string-only data)",
                      "lookups with empty or '-' segments (unspecified)"],
    "assumptions": ["an ini file means what configparser.ConfigParser() with its default settings reports (sections as objects, basic %(name)s interpolation, DEFAULT inherited, keys lower-cased)", "a path argument is a pattern only through * and ? (process_path's documented rule); files whose names start with a dot are not used in the pattern scenario", "fake Path.open / cli.open model the OS", "the library reference is built from an independent option table"],
}
if isinstance(META.get("bounds"), dict) and "quick" in META["bounds"]:
    META["bounds"]["quick"] += '; path patterns (4) on a real temporary directory with 5 directory names, -m / -l; fractional percents'
