"""C15 — generation works from any thread and concurrent runs do not interfere.

CH-E with the *schedule* as the solver variable.  T real worker threads each run an independent pipeline; a baton makes
exactly one of them run at a time and hands control back to the main thread at every yield point (wrappers installed
from outside around the accesses to state that could be shared).  The main thread - the only one talking to CrossHair -
asks the solver at each yield point whether to preempt the running worker and which worker runs next
(preemption-bounded exploration: at most `budget` preemptions; switches at thread end are free)."""
import contextlib
import copy
import threading

from vflib.parts import CH

PIPELINES = [
    # (samples, framework, layout, max_literals)  — 'shared' shape: the nested layout needs a path injection (Root.Item)
    ([{"left": {"item": {"sku": "s", "qty": 1}, "l": "a"}, "right": {"item": {"sku": "t", "qty": 2}, "r": "x"}, "kind": "k1"},
      {"left": {"item": {"sku": "u", "qty": 3}, "l": "b"}, "right": {"item": {"sku": "v", "qty": 4}, "r": "y"}, "kind": "k2"}], "pydantic", "nested", 10),
    ([{"north": {"cell": {"code": "c", "n": 1.5}, "u": 1}, "south": {"cell": {"code": "d", "n": 2.5}, "v": [1, "two"]}, "kind": "z1"},
      {"north": {"cell": {"code": "e", "n": 3.5}, "u": 2}, "south": {"cell": {"code": "f", "n": 4.5}, "v": []}, "kind": "z2"}], "dataclasses", "nested", 2),
    ([{"a": {"leaf": {"p": "1", "q": None}, "m": 1}, "b": {"leaf": {"p": "2", "q": "x"}, "k": True}, "kind": "w1"}], "pydantic", "flat", 1),
    # same framework as pipeline 0 with another literal limit: a limit kept anywhere but in the generator instance would leak
    ([{"up": {"node": {"tag": "s", "n": 1}, "l": "a"}, "down": {"node": {"tag": "t", "n": 2}, "r": "x"}, "kind": "q1"},
      {"up": {"node": {"tag": "u", "n": 3}, "l": "b"}, "down": {"node": {"tag": "v", "n": 4}, "r": "y"}, "kind": "q2"}], "pydantic", "nested", 1),
    # string converters switched on in two different frameworks (the decorator names its own framework)
    ([{"count": "1", "ratio": "1.5", "flags": ["true", "false"], "child": {"n": "2"}}], "attrs", "flat", 10, {"post_init_converters": True}),
    ([{"total": "7", "share": "2.5", "marks": ["false"], "kid": {"m": "3"}}], "dataclasses", "flat", 10, {"post_init_converters": True}),
    # keys that need transliteration (any per-thread state of the label code is exercised from worker threads)
    ([{"gr\u00f6\u00dfe": 1, "\u0438\u043c\u044f": "x", "na\u00efve": {"caf\u00e9": 2}}], "pydantic", "flat", 10),
    # date / time / datetime strings with the datetime classes registered (explicit registry): detection calls into dateutil, and
    # anything that only works in the main thread (signals, main-thread-only state) shows as a different type in a worker
    ([{"day": "2018-12-31", "at": "12:58:12", "stamp": "2018-12-31T12:58:12Z", "n": "12", "items": [{"d": "2019-01-02"}]},
      {"day": "2019-02-01", "at": "01:02:03", "stamp": "2019-02-01T01:02:03Z", "n": "13", "items": []}], "pydantic", "flat", 10, {}, "datetime"),
    ([{"born": "1999-05-06", "alarm": "06:30:00", "seen": "2020-02-29T23:59:59"}], "dataclasses", "flat", 10, {"post_init_converters": True}, "datetime"),
]


def run_one(i):
    from vflib import pipeline
    samples, fw, layout, ml, *extra = PIPELINES[i]
    infer_kw = {}
    if len(extra) > 1:
        from vflib.props import c01
        infer_kw["str_registry"] = c01.str_registry(extra[1])
    gen, reg, _ = pipeline.infer({"Root": copy.deepcopy(samples)}, **infer_kw)
    kw = {"meta": True} if fw in ("attrs", "dataclasses") else {}
    kw.update(extra[0] if extra else {})
    return pipeline.emit(reg, fw, layout, max_literals=ml, **kw)


class Scheduler:
    def __init__(self, n):
        self.go = [threading.Semaphore(0) for _ in range(n)]
        self.ready = threading.Semaphore(0)
        self.done = [False] * n
        self.result = [None] * n
        self.current = None
        self.points = 0
        self.local = threading.local()

    def yield_point(self, label):
        i = getattr(self.local, "idx", None)
        if i is None:
            return          # main thread (reference runs)
        self.last_label = label
        self.ready.release()
        self.go[i].acquire()

    def worker(self, i, fn):
        self.local.idx = i
        self.go[i].acquire()
        try:
            self.result[i] = ("ok", fn(i))
        except BaseException as e:   # noqa: a worker must never die silently
            self.result[i] = ("raised", f"{type(e).__name__}: {e}")
        self.done[i] = True
        self.ready.release()


@contextlib.contextmanager
def yield_points(sched, extra):
    """wrap, from outside, the accesses to state that could be shared between threads"""
    import json_to_models.dynamic_typing.complex as complex_mod
    from json_to_models.dynamic_typing import AbsoluteModelRef
    from json_to_models.generator import MetadataGenerator
    from json_to_models.models.base import GenericModelCodeGenerator
    saved = []

    def wrap(owner, name, label, after=False):
        orig = owner.__dict__[name] if isinstance(owner, type) else getattr(owner, name)
        raw = orig.__func__ if isinstance(orig, (staticmethod, classmethod)) else orig

        def w(*a, **k):
            if not after:
                sched.yield_point(label)
            r = raw(*a, **k)
            if after:
                sched.yield_point(label)
            return r
        saved.append((owner, name, orig))
        setattr(owner, name, staticmethod(w) if isinstance(orig, staticmethod) else (classmethod(w) if isinstance(orig, classmethod) else w))

    wrap(AbsoluteModelRef.Context, "__enter__", "Context.__enter__")
    wrap(AbsoluteModelRef.Context, "__exit__", "Context.__exit__")
    wrap(AbsoluteModelRef, "to_typing_code", "AbsoluteModelRef.to_typing_code")
    def wrap_property(owner, name, label):
        prop = owner.__dict__.get(name)
        if not isinstance(prop, property):
            return

        def getter(self_):
            r = prop.fget(self_)
            sched.yield_point(label)      # after the value was computed, before the caller uses it
            return r
        saved.append((owner, name, prop))
        setattr(owner, name, property(getter))

    if extra:
        from json_to_models.models.attr import AttrsModelCodeGenerator
        from json_to_models.models.dataclasses import DataclassModelCodeGenerator
        for owner in (GenericModelCodeGenerator, AttrsModelCodeGenerator, DataclassModelCodeGenerator):
            wrap_property(owner, "convert_strings_kwargs", f"{owner.__name__}.convert_strings_kwargs (after)")
        wrap_property(GenericModelCodeGenerator, "string_field_paths", "string_field_paths (after)")
        wrap(GenericModelCodeGenerator, "__init__", "Generator.__init__ (after)", after=True)
        wrap(GenericModelCodeGenerator, "generate", "Generator.generate")
        wrap(complex_mod, "get_hash_string", "DUnion dedup (get_hash_string)")
        wrap(MetadataGenerator, "merge_field_sets", "merge_field_sets")
    try:
        yield
    finally:
        for owner, name, orig in reversed(saved):
            setattr(owner, name, orig)


def scen_schedule(ch, params, out):
    T = params.get("threads", 2)
    budget = params.get("preemptions", 2)
    which = ch.choose("pipelines", params.get("pipeline_sets", [[0, 1]]), shard=False)
    n = len(which)
    # solo references, computed in the main (importing) thread
    solo = []
    for i in which:
        try:
            solo.append(run_one(i))
        except Exception as e:
            out.fail("solo_run_raises", f"{type(e).__name__}: {e}", "solo_run_raises")
            return
    sched = Scheduler(n)
    trace = []
    with yield_points(sched, params.get("extra_points", True)):
        threads = [threading.Thread(target=sched.worker, args=(k, lambda k_, w=which: run_one(w[k_])), daemon=True) for k in range(n)]
        for t in threads:
            t.start()
        runnable = list(range(n))
        cur = runnable[ch.pick("first_thread", len(runnable), shard=True)] if n > 1 else 0
        steps = 0
        while runnable:
            sched.go[cur].release()
            if not sched.ready.acquire(timeout=60):
                out.fail("scheduler_stuck", f"worker {cur} did not come back; trace={trace[-6:]}", "scheduler_stuck")
                return
            steps += 1
            if sched.done[cur]:
                runnable.remove(cur)
                if not runnable:
                    break
                cur = runnable[ch.pick(f"next_after_end@{steps}", len(runnable))] if len(runnable) > 1 else runnable[0]
                trace.append(("end->", cur))
                continue
            if budget > 0 and len(runnable) > 1 and ch.flag(f"preempt@{steps}"):
                budget -= 1
                others = [r for r in runnable if r != cur]
                nxt = others[ch.pick(f"switch_to@{steps}", len(others))] if len(others) > 1 else others[0]
                trace.append((steps, getattr(sched, "last_label", "?"), f"{cur}->{nxt}"))
                cur = nxt
        for t in threads:
            t.join(timeout=10)
    out.info = {"threads": n, "switches": [list(map(str, t)) for t in trace], "yield_points": steps}
    for k in range(n):
        kind, val = sched.result[k] if sched.result[k] else ("raised", "no result")
        if n == 1:
            out.check(kind == "ok", "fails_in_worker_thread", lambda: f"pipeline {which[k]} run from a worker thread: {val}", "fails_in_worker_thread")
        else:
            out.check(kind == "ok", "fails_when_interleaved", lambda: f"pipeline {which[k]} raised under schedule {trace}: {val}", "fails_when_interleaved")
        if kind == "ok":
            out.check(val == solo[k], "output_differs_when_interleaved",
                      lambda: f"pipeline {which[k]} under schedule {trace} differs from its solo output:\n--- solo\n{solo[k]}\n--- interleaved\n{val}",
                      "output_differs_when_interleaved")


def parts(tier):
    if tier == "quick":
        return [CH("one_worker", "vflib.props.c15:scen_schedule", {"threads": 1, "pipeline_sets": [[0], [1], [2], [4], [6], [7], [8]], "preemptions": 0}, shards=1, timeout=120, path_timeout=60),
                CH("two_workers", "vflib.props.c15:scen_schedule", {"threads": 2, "pipeline_sets": [[0, 3]], "preemptions": 2}, shards=2, timeout=170, path_timeout=90),
                CH("two_workers_converters", "vflib.props.c15:scen_schedule", {"threads": 2, "pipeline_sets": [[4, 5]], "preemptions": 2}, shards=2, timeout=170, path_timeout=90)]
    return [CH("one_worker", "vflib.props.c15:scen_schedule", {"threads": 1, "pipeline_sets": [[0], [1], [2], [3], [4], [5], [6], [7], [8]], "preemptions": 0}, shards=1, timeout=120, path_timeout=60),
            CH("two_workers", "vflib.props.c15:scen_schedule", {"threads": 2, "pipeline_sets": [[0, 1], [1, 2], [0, 3], [3, 2], [4, 5], [6, 0], [7, 8]], "preemptions": 2}, shards=2, timeout=150, path_timeout=90),
            CH("three_workers", "vflib.props.c15:scen_schedule", {"threads": 3, "pipeline_sets": [[0, 1, 2]], "preemptions": 2}, shards=3, timeout=150, path_timeout=90),
            CH("two_workers_context_only_all_interleavings", "vflib.props.c15:scen_schedule",
               {"threads": 2, "pipeline_sets": [[0, 1]], "preemptions": 40, "extra_points": False}, shards=2, timeout=150, path_timeout=90)]


META = {
    "level": "exploration", "mode": "CH-E with the schedule as solver variable (preemption-bounded)",
    "explanation": "real threads, serialised by a baton; the solver decides at every yield point whether to preempt and who runs next; every schedule within the preemption bound is executed on the real code",
    "functions_encoded": ["AbsoluteModelRef.Context.__enter__/__exit__", "AbsoluteModelRef.to_typing_code", "GenericModelCodeGenerator.__init__/generate", "DUnion.__init__ (through get_hash_string)",
                          "MetadataGenerator.merge_field_sets", "generate_code"],
    "symbolic_on_path": ["first thread", "preempt-here bit at each yield point", "thread to switch to", "thread order after a thread ends"],
    "bounds": {"quick": "1 worker (3 pipelines); 2 workers, <=2 preemptions, yield points at 9 kinds of call sites (~100 per worker)",
               "thorough": "3 pairs of pipelines, 3 workers, and all interleavings of the reference-context accesses for one pair"},
    "outside_claim": ["thread switches between yield points (inside other byte codes)", "more than 3 threads / more than 2 preemptions", "true parallelism without the GIL"],
    "assumptions": ["only one worker runs at a time (baton); switches happen at the wrapped call sites only",
                    "the other module-level objects (default string registry, Jinja templates, class attributes) are not written during generation"],
}
if isinstance(META.get("bounds"), dict) and "quick" in META["bounds"]:
    META["bounds"]["quick"] += '; two pipelines with the datetime classes registered, run from a worker thread'
