"""Stub of the `sqlmodel` package (not installed in this sandbox; C03 asks for "sqlmodel (against a stub package)").

SQLModel = pydantic.v1 BaseModel whose subclasses accept the `table=` class keyword; Field = pydantic.v1 Field that
also accepts sqlmodel's extra keywords (primary_key, foreign_key, index, ...), which it stores in `extra`.
"""
from pydantic.v1 import BaseModel
from pydantic.v1 import Field as _Field
from pydantic.v1.main import ModelMetaclass


class _Meta(ModelMetaclass):
    def __new__(mcs, name, bases, namespace, table=False, **kwargs):
        cls = super().__new__(mcs, name, bases, namespace, **kwargs)
        cls.__table_flag__ = table
        return cls

    def __init__(cls, name, bases, namespace, table=False, **kwargs):
        super().__init__(name, bases, namespace, **kwargs)


class SQLModel(BaseModel, metaclass=_Meta):
    pass


def Field(default=..., **kwargs):
    return _Field(default, **kwargs)
