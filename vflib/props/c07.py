"""C07 — sample order and repetition do not change what is inferred (CH-P/CH-E over genome x permutation x duplication)."""
import copy
import itertools

from vflib import jsonsym
from vflib.parts import CH
from vflib.props import c01


def scen_order(ch, params, out):
    from vflib import oracles, pipeline
    kinds = getattr(jsonsym, params.get("kinds", "KINDS_SMALL"))
    n = params.get("samples", 3)
    keys = params.get("keys", ["a"])
    first = ch.choose("kinds(s0,s1)", [(a, b) for a in kinds for b in kinds], shard=True)
    cfgk = [dict() for _ in range(n)]
    cfgk[0][keys[0]], cfgk[1][keys[0]] = first
    for i in range(n):
        for key in keys:
            if key not in cfgk[i]:
                cfgk[i][key] = ch.choose(f"kind(s{i}.{key})", kinds)
    merge = ch.choose("merge", params.get("merge", ["default"]))
    samples = [jsonsym.sample(None, f"s{i}", cfgk[i], False) for i in range(n)]
    perms = list(itertools.permutations(range(n)))
    variants = [("perm", p) for p in perms[1:]] + [("dup", (i, c)) for i in range(n) for c in (1, 2)] + \
               [("dup_perm", (i, p)) for i in range(n) for p in perms[1:3]]
    kind, arg = ch.choose("variant", variants)
    if kind == "perm":
        other = [samples[i] for i in arg]
    elif kind == "dup":
        i, c = arg
        other = samples + [samples[i]] * c
    else:
        i, p = arg
        other = [samples[j] for j in p]
        other.insert(ch.pick("dup_position", n + 1), samples[i])
    out.info = {"samples": samples, "variant": [kind, list(map(str, arg))]}

    def run(ss):
        return pipeline.infer({"Root": copy.deepcopy(ss)}, merge=c01.merge_policy(merge))[1]
    try:
        r1 = run(samples)
    except Exception as e:
        return  # crashes of inference are C01/C08's subject
    try:
        r2 = run(other)
    except Exception as e:
        out.fail("variant_raises", f"{type(e).__name__}: {e} for {other} (original order fine: {samples})", "variant_raises")
        return
    c1, c2 = oracles.canon_registry(r1), oracles.canon_registry(r2)
    out.check(c1 == c2, "order_or_repetition_dependent",
              lambda: f"samples {samples} -> {c1}\n but {kind}{arg} {other} -> {c2}", f"order_dependent:{kind}")


def parts(tier):
    if tier == "quick":
        return [CH("order", "vflib.props.c07:scen_order", {"kinds": "KINDS_SMALL", "samples": 3},
                   shards=16, timeout=170, path_timeout=30)]
    return []


META = {
    "level": "exploration", "mode": "CH-E",
    "explanation": "for every genome of 3 samples and every permutation / duplication selector the canonicalised registry is compared with the one of the original order",
    "functions_encoded": ["MetadataGenerator.generate/merge_field_sets/_optimize_union", "DUnion.__init__/__eq__", "ModelRegistry.merge_models"],
    "symbolic_on_path": ["kind of the varying field per sample", "permutation selector", "duplication selector and position", "merge policy"],
    "bounds": {"quick": "3 samples, 10 kinds on one varying key, 5 permutations + 6 duplications + 6 duplicate-and-permute variants"},
    "outside_claim": ["more than 3 samples", "more than one varying key (quick)"],
    "assumptions": ["models are compared as sets of (field, optional?, type-as-set); references are compared by the key set of the target"],
}
