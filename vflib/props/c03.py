"""C03 — emitted module is loadable Python with every reference resolvable (CH-E over program genomes)."""
from vflib.parts import CH


def scen_load(ch, params, out):
    from vflib import emitcheck, progsym
    prog = progsym.choose_program(ch, params)
    out.info = {k: prog[k] for k in ("k", "template", "framework", "layout", "kwargs")}
    b = progsym.build(prog, out)
    if b is None or b == "skip":
        if b == "skip":
            out.checked += 1
        return
    gen, reg, text = b
    ctx = lambda: f"keys {prog['k']} template {prog['template']} options {prog['kwargs']}"
    cu = prog["kwargs"].get("convert_unicode", True)
    fe = emitcheck.fold(prog["k"][0], cu) == emitcheck.fold(prog["k"][1], cu)
    if fe:
        # outside C11's documented key domain: the two keys collapse into one field name (listed known finding);
        # nothing else is demanded of such a module
        import ast
        try:
            dup = any(len(set(emitcheck.annotated_names(c))) != len(emitcheck.annotated_names(c))
                      for _, c, _ in emitcheck.class_defs(ast.parse(text)))
        except SyntaxError:
            dup = True
        out.checked += 1
        if dup:
            out.fail("duplicate_field_name", f"folded-equal keys {prog['k'][:2]} give one field name", "duplicate_field_name:folded_equal_keys")
        return
    em = emitcheck.check_loadable(text, reg, prog["framework"], prog["layout"], out, ctx, folded_equal=fe)
    if em is not None:
        em.close()


def scen_roots(ch, params, out):
    """several -m roots: explicit root names vs names generated from keys (duplicate class names must be disambiguated)."""
    import copy
    from vflib import emitcheck, pipeline
    names = ["Order", "Item", "Value", "Root", "Items", "item"]
    nA, nB = ch.choose("root_names", [(a, b) for a in names for b in names if a != b], shard=True)
    kA = ch.choose("nested_key_in_A", ["item", "items", "value", "order", "root"])
    kB = ch.choose("nested_key_in_B", ["item", "value", "child"])
    a_data = [{"id": 1, kA: {"sku": "x", "qty": 2} if not kA.endswith("s") else [{"sku": "x", "qty": 2}]}]
    b_data = [{"title": "t", "price": 1.5, "tags": ["a"], kB: {"deep": True}}]
    order = ch.flag("B_first")
    data = {nB: b_data, nA: a_data} if order else {nA: a_data, nB: b_data}
    fw = ch.choose("framework", params.get("frameworks", ["base", "pydantic", "attrs", "dataclasses", "sqlmodel"]))
    layout = ch.choose("layout", ["flat", "nested"])
    out.info = {"roots": list(data), "kA": kA, "kB": kB, "framework": fw, "layout": layout}
    try:
        gen, reg, _ = pipeline.infer(copy.deepcopy(data))
    except Exception as e:
        out.fail("inference_raises", f"{type(e).__name__}: {e} for {data}", f"inference_raises:{type(e).__name__}")
        return
    if layout == "nested" and not pipeline.is_tree(reg):
        out.checked += 1
        return
    try:
        text = pipeline.emit(reg, fw, layout)
    except Exception as e:
        out.fail("emit_raises", f"[{fw}/{layout}] {type(e).__name__}: {e} for {data}", f"emit_raises:{type(e).__name__}")
        return
    em = emitcheck.check_loadable(text, reg, fw, layout, out, lambda: f"roots {list(data)} data {data}")
    if em is not None:
        em.close()


def parts(tier):
    if tier == "quick":
        return [
            CH("k1k2", "vflib.props.c03:scen_load", {"pool": "KEY_POOL_QUICK", "styled": "k1k2",
                                                     "templates": ["flat_scalars", "nested_object", "list_of_objects", "two_similar_children"]},
               shards=16, timeout=170, path_timeout=30),
            CH("structure_templates", "vflib.props.c03:scen_load", {"pool": "KEY_POOL_QUICK", "styled": "k3", "options": True,
                                                                    "templates": ["odd_string_values", "deep_sole_import", "odd_values_nested", "recursive", "deep_chain"]},
               shards=16, timeout=170, path_timeout=30),
            CH("k3", "vflib.props.c03:scen_load", {"pool": "KEY_POOL_QUICK", "styled": "k3", "options": True,
                                                   "templates": ["nested_object", "list_of_objects", "optional_pseudo"]},
               shards=16, timeout=170, path_timeout=30),
            CH("roots", "vflib.props.c03:scen_roots", {}, shards=10, timeout=170, path_timeout=30),
            CH("reserved_name_variants", "vflib.props.c03:scen_load", {"pool": "KEY_POOL_RESERVED", "styled": "k1",
                                                                      "templates": ["flat_scalars", "nested_object"]},
               shards=16, timeout=170, path_timeout=30),
            CH("odd_characters", "vflib.props.c03:scen_load", {"pool": "KEY_POOL_ODD", "styled": "k3", "options": True,
                                                               "templates": ["nested_object", "list_of_objects", "odd_values_nested"]},
               shards=8, timeout=170, path_timeout=30),
            CH("symbol_prefixed_any_position", "vflib.props.c03:scen_load", {"pool": "KEY_POOL_PREFIXED", "styled": "any1",
                                                                             "templates": ["flat_scalars", "nested_object", "list_of_objects"]},
               shards=15, timeout=170, path_timeout=30),
        ]
    from vflib import progsym
    return [
        CH("k1k2", "vflib.props.c03:scen_load", {"pool": "KEY_POOL_FULL", "styled": "k1k2", "templates": progsym.TEMPLATES_FULL}, shards=16, timeout=150, path_timeout=30),
        CH("k3", "vflib.props.c03:scen_load", {"pool": "KEY_POOL_FULL", "styled": "k3", "options": True, "templates": progsym.TEMPLATES_FULL},
           shards=16, timeout=150, path_timeout=30),
        CH("k1k2k3", "vflib.props.c03:scen_load", {"pool": "KEY_POOL_QUICK", "styled": "all", "templates": ["nested_object", "list_of_objects"],
                                                   "frameworks": ["pydantic", "dataclasses"]}, shards=16, timeout=150, path_timeout=30),
        CH("roots", "vflib.props.c03:scen_roots", {}, shards=10, timeout=150, path_timeout=30),
        CH("reserved_name_variants", "vflib.props.c03:scen_load", {"pool": "KEY_POOL_RESERVED", "styled": "k1", "options": True,
                                                                  "templates": ["flat_scalars", "nested_object", "list_of_objects", "recursive"]},
           shards=16, timeout=150, path_timeout=30),
    ]


META = {
    "level": "exploration", "mode": "CH-E",
    "explanation": "every program genome (structural template x styled keys x framework x layout x options) is emitted by the real generator, compiled, executed with only its own imports, and every annotation is resolved in its scope",
    "functions_encoded": ["prepare_label", "GenericModelCodeGenerator and the 4 framework generators", "generate_code/_generate_code", "compile_imports",
                          "ModelPtr.to_typing_code / AbsoluteModelRef", "compose_models / compose_models_flat", "sort_fields",
                          "ModelRegistry.generate_names / fix_name_duplicates", "ModelMeta.generate_name"],
    "symbolic_on_path": ["two styled keys from the pool (or the key that names a nested model)", "structural template", "framework", "layout", "option bits"],
    "bounds": {"thorough": "62-key pool: all pairs x 7 templates x 5 frameworks x 2 layouts; every key as nested-model key x options; all triples of the 24-key pool x 2 templates x 2 frameworks", "quick": "24-key pool, all unordered pairs for two root keys x 4 templates x 5 frameworks x 2 layouts; every pool key as nested-model key x 3 templates x options"},
    "outside_claim": ["keys outside the pool (unidecode/inflection/regex realise symbolic strings; no SMT model of them)", "nested layout for non-tree graphs (excluded by the property)"],
    "assumptions": ["sqlmodel is the stub package /verif/stubs/sqlmodel"],
}
if isinstance(META.get("bounds"), dict) and "quick" in META["bounds"]:
    META["bounds"]["quick"] += '; symbol-prefixed / parameter-name keys (16) in any of the 3 key positions x 3 templates; escaping-sensitive keys in the odd-key pool'
