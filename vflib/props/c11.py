"""C11 — JSON keys survive renaming: distinct keys give distinct, recoverable fields.

  SMT-S : the quoting expression used for the pydantic alias / the attrs+dataclasses metadata is read from the source
          AST and decided per code point over ALL Unicode scalar values (does the emitted literal decode to the key?).
  CH-E  : styled + special-character keys through the real pipeline; field tables of the loaded module."""
import ast

from vflib.parts import CH, SMT

SPECIAL_KEYS = ['say "hi"', "back\\slash", "it's", 'a"b\\c', "tab\tkey", "new\nline", "emoji\U0001F600key", "naïve café", "q?mark", "dollar$",
                "line\u2028sep", "nel\x85key", "tab\tastral\U0001F600", "#1st", "family \U0001F468\u200d\U0001F469"]


def _alias_expr():
    from json_to_models.models.pydantic import PydanticModelCodeGenerator
    from vflib import strmodels
    tree = strmodels.function_tree(PydanticModelCodeGenerator._get_field_kwargs)
    for node in ast.walk(tree):
        if isinstance(node, ast.Assign) and isinstance(node.targets[0], ast.Subscript):
            t = node.targets[0]
            if isinstance(t.slice, ast.Constant) and t.slice.value == "alias":
                return node.value
    return None


def _metadata_kind(cls):
    from vflib import strmodels
    tree = strmodels.function_tree(cls.field_data)
    for node in ast.walk(tree):
        if isinstance(node, ast.Assign) and isinstance(node.targets[0], ast.Subscript):
            t = node.targets[0]
            if isinstance(t.slice, ast.Constant) and t.slice.value == "metadata":
                v = node.value
                if isinstance(v, ast.Dict) and len(v.values) == 1 and ast.unparse(v.values[0]) == "name":
                    return "repr"       # a dict rendered by the template through str(dict) -> repr of the key
                return None
    return None


def replay_key(case):
    """real pipeline on a key containing the counterexample code point; is the key recoverable from the loaded class?"""
    from vflib import emitcheck, pipeline
    key = case["key"]
    fw = case["framework"]
    kwargs = {"meta": True} if fw in ("attrs", "dataclasses") else {}
    gen, reg, _ = pipeline.infer({"Root": [{key: 1, "other": 2}]})
    text = pipeline.emit(reg, fw, "flat", **kwargs)
    try:
        em = emitcheck.Emitted(text, reg, fw, "flat")
    except Exception as e:
        return f"key {key!r} under {fw}: emitted module does not load ({type(e).__name__}: {e}); text: {text!r}"
    try:
        table = em.table(em.ld.classes["Root"])
        carried = [rec["key"] for rec in table.values() if rec["key"] is not None]
        names = list(table)
        if key in names or key in carried:
            return None
        return f"key {key!r} under {fw}: not recoverable; fields {names}, carried keys {carried}"
    finally:
        em.close()


def kernel_quoting(tier, seed, params):
    from json_to_models.models.attr import AttrsModelCodeGenerator
    from json_to_models.models.dataclasses import DataclassModelCodeGenerator
    from vflib import strmodels
    res = {"obligations": 0, "discharged": 0, "queries": [], "counterexamples": [], "inconclusive": [], "errors": [],
           "functions_encoded": ["PydanticModelCodeGenerator._get_field_kwargs (alias expression)", "AttrsModelCodeGenerator.field_data (metadata)",
                                 "DataclassModelCodeGenerator.field_data (metadata)"],
           "bounds": {"code_points": "all Unicode scalar values 0..0x10FFFF without surrogates; strings of any length by the homomorphism argument"},
           "samples": [], "solver_time_s": 0.0}
    sites = []
    e = _alias_expr()
    kind = strmodels.classify_quote_expr(e, "name") if e is not None else None
    sites.append(("pydantic alias", "pydantic", kind, ast.unparse(e) if e is not None else None))
    sites.append(("attrs metadata", "attrs", _metadata_kind(AttrsModelCodeGenerator), "{METADATA_FIELD_NAME: name} via str(dict)"))
    sites.append(("dataclasses metadata", "dataclasses", _metadata_kind(DataclassModelCodeGenerator), "{METADATA_FIELD_NAME: name} via str(dict)"))
    kinds = sorted({k for _, _, k, _ in sites if k})
    errs, npts = strmodels.validate_models(kinds, seed)
    res["validation"] = {"points": npts, "disagreements": len(errs)}
    res["errors"] += errs
    if errs:
        return res
    for site, fw, kind, src in sites:
        res["obligations"] += 1
        if kind is None:
            res["inconclusive"].append(f"{site}: quoting expression {src!r} is outside the translator's subset")
            continue
        rec, cp = strmodels.decide(kind, f"exists c . decode(render(c)) != c  [{site}: {src}]")
        res["solver_time_s"] += rec["time_s"]
        res["queries"].append(rec)
        if rec["twin"] != "sat":
            res["errors"].append(f"{site}: vacuity twin {rec['twin']}")
        if rec["result"] == "unsat":
            res["discharged"] += 1
        elif rec["result"] == "sat":
            key = "k" + chr(cp) + "v"
            res["counterexamples"].append({"replay": "vflib.props.c11:replay_key", "case": {"key": key, "framework": fw, "code_point": cp},
                                           "what": f"{site}: code point U+{cp:04X} does not survive {src}", "fingerprint": f"key_not_recoverable:{fw}:{kind}"})
        else:
            res["inconclusive"].append(f"{site}: {rec['result']}")
    res["samples"] = [{"obligation": f"{s}: producer {k} ({src})"} for s, _, k, src in sites]
    return res


def scen_keys(ch, params, out):
    from vflib import emitcheck, pipeline
    pool = emitcheck.KEY_POOL_QUICK + SPECIAL_KEYS if params.get("pool") != "full" else emitcheck.KEY_POOL_FULL + SPECIAL_KEYS
    pairs = [(a, b) for i, a in enumerate(pool) for b in pool[i + 1:]]
    k1, k2 = ch.choose("keys", pairs, shard=True)
    fw = ch.choose("framework", ["pydantic", "sqlmodel", "attrs", "dataclasses", "base"])
    cu = ch.flag("convert_unicode")
    nested = ch.flag("keys_name_nested_models")
    kwargs = {"convert_unicode": cu}
    if fw in ("attrs", "dataclasses"):
        kwargs["meta"] = True
    if emitcheck.fold(k1, cu) == emitcheck.fold(k2, cu) or not emitcheck.fold(k1, cu) or not emitcheck.fold(k2, cu):
        out.checked += 1
        return      # outside the documented domain (folded-equal keys / empty labels are listed known findings of C11)
    if nested:
        data = [{k1: {"x": 1}, k2: [{"y": "s"}], "plain": 1}]
    else:
        data = [{k1: 1, k2: "s", "plain": 1.5}, {k1: 2}]
    out.info = {"keys": [k1, k2], "framework": fw, "convert_unicode": cu, "nested": nested}
    ctx = lambda: f"keys {[k1, k2]} {fw} convert_unicode={cu}"
    try:
        gen, reg, _ = pipeline.infer({"Root": data})
        text = pipeline.emit(reg, fw, "flat", **kwargs)
    except Exception as e:
        out.fail("pipeline_raises", f"{type(e).__name__}: {e} ({ctx()})", f"pipeline_raises:{type(e).__name__}")
        return
    em = emitcheck.check_loadable(text, reg, fw, "flat", out, ctx)
    if em is None:
        return
    try:
        root = em.ld.classes.get("Root")
        if not out.check(root is not None, "root_missing", text, "root_missing"):
            return
        table = em.table(root)
        out.check(len(table) == 3, "distinct_keys_collapse", lambda: f"3 distinct keys but fields {list(table)} ({ctx()})\n{text}",
                  "distinct_keys_collapse")
        can_carry = fw != "base"
        for key in (k1, k2, "plain"):
            holders = [f for f, rec in table.items() if rec["key"] == key]
            if key in table and not holders:
                out.check(table[key]["key"] is None, "spurious_original_key", lambda: f"{key}: {table[key]['key']!r} ({ctx()})", "spurious_original_key")
                continue
            if can_carry:
                out.check(len(holders) == 1, "original_key_not_recoverable",
                          lambda: f"key {key!r}: no field named so and carried keys are {[r['key'] for r in table.values()]} ({ctx()})\n{text}",
                          f"original_key_not_recoverable:{fw}")
        names = [c.__name__ for c in em.ld.classes.values()]
        out.check(len(set(names)) == len(names), "class_names_collide", lambda: f"{names} ({ctx()})", "class_names_collide")
    finally:
        em.close()


def scen_key_in_child(ch, params, out):
    """one key from the wide pool (odd characters, reserved-name variants) as a field of a CHILD model, under both layouts: the
    text of a nested class is post-processed (indented) after the field line with its alias / metadata was written"""
    from vflib import emitcheck, pipeline
    pool = list(dict.fromkeys(emitcheck.KEY_POOL_ODD + SPECIAL_KEYS + emitcheck.KEY_POOL_RESERVED + emitcheck.KEY_POOL_PREFIXED))
    key = ch.choose("key", pool, shard=True)
    fw = ch.choose("framework", params.get("frameworks", ["pydantic", "sqlmodel", "attrs", "dataclasses"]))
    layout = ch.choose("layout", ["flat", "nested"])
    cu = ch.flag("convert_unicode")
    depth = ch.choose("depth", [1, 2])
    role = ch.choose("key_is", ["field_of_the_child", "name_of_the_child"])
    kwargs = {"convert_unicode": cu}
    if fw in ("attrs", "dataclasses"):
        kwargs["meta"] = True
    if not emitcheck.fold(key, cu) or emitcheck.fold(key, cu) in {emitcheck.fold(k, cu) for k in ("plain", "v", "num", "mid", "child", "m")}:
        out.checked += 1
        return      # empty label / folded-equal to a sibling key: outside the documented key domain
    if role == "field_of_the_child":
        child = {key: 1, "plain": "s"}
        data = [{"child": child, "num": 1}] if depth == 1 else [{"mid": {"child": child, "m": 2}, "num": 1}]
    else:
        # the key names the child model (its class name is generated from the key) and is the field that refers to it
        child = {"v": 1, "plain": "s"}
        data = [{key: child, "num": 1}] if depth == 1 else [{"mid": {key: child, "m": 2}, "num": 1}]
    out.info = {"key": key, "framework": fw, "layout": layout, "convert_unicode": cu, "depth": depth, "role": role}
    ctx = lambda: f"key {key!r} as {role} at depth {depth} {fw}/{layout} convert_unicode={cu}"
    try:
        gen, reg, _ = pipeline.infer({"Root": data})
        text = pipeline.emit(reg, fw, layout, **kwargs)
    except Exception as e:
        out.fail("pipeline_raises", f"{type(e).__name__}: {e} ({ctx()})", f"pipeline_raises:{type(e).__name__}")
        return
    em = emitcheck.check_loadable(text, reg, fw, layout, out, ctx)
    if em is None:
        return
    try:
        if role == "field_of_the_child":
            cls = next((c for q, c in em.ld.classes.items() if q.split(".")[-1] == "Child"), None)
        else:
            cls = next((c for q, c in em.ld.classes.items() if q.split(".")[-1] == ("Root" if depth == 1 else "Mid")), None)
        if not out.check(cls is not None, "child_missing", lambda: f"({ctx()})\n{text}", "child_missing"):
            return
        table = em.table(cls)
        out.check(len(table) == 2, "distinct_keys_collapse", lambda: f"2 keys but fields {list(table)} ({ctx()})\n{text}", "distinct_keys_collapse")
        holders = [f for f, rec in table.items() if rec["key"] == key]
        if key in table and not holders:
            out.check(table[key]["key"] is None, "spurious_original_key", lambda: f"{key}: {table[key]['key']!r} ({ctx()})", "spurious_original_key")
        else:
            out.check(len(holders) == 1, "original_key_not_recoverable",
                      lambda: f"key {key!r}: no field named so and carried keys are {[r['key'] for r in table.values()]} ({ctx()})\n{text}",
                      f"original_key_not_recoverable:{fw}")
    finally:
        em.close()


ALPHABET = ["a", "B", "z", "_", "-", "1", "\u00e9", " ", ".", '"']


def all_strings(maxlen):
    import itertools
    out = []
    for n in range(1, maxlen + 1):
        for t in itertools.product(ALPHABET, repeat=n):
            s_ = "".join(t)
            if any(c in "aBz" for c in s_) and s_[0] not in "_1":      # documented domain: an ASCII letter, no leading underscore / digit
                out.append(s_)
    return out


def scen_labels(ch, params, out):
    """wide(r) alphabet: for a solver-chosen key s and EVERY other key t over the alphabet, equal labels imply folded-equal keys"""
    import keyword
    from json_to_models.models.base import prepare_label
    from vflib import emitcheck
    strings = all_strings(params.get("maxlen", 3))
    s_ = ch.choose("key", strings, shard=True)
    cu = ch.flag("convert_unicode")
    snake = ch.flag("field_name(snake_case)")
    try:
        label = prepare_label(s_, convert_unicode=cu, to_snake_case=snake)
    except Exception as e:
        out.fail("label_raises", f"prepare_label({s_!r}, convert_unicode={cu}, snake={snake}): {type(e).__name__}: {e}", "label_raises")
        return
    out.info = {"key": s_, "label": label}
    out.check(label.isidentifier() and not keyword.iskeyword(label), "label_not_identifier", lambda: f"{s_!r} -> {label!r} (cu={cu}, snake={snake})",
              "label_not_identifier")
    fs = emitcheck.fold(s_, cu)
    clash = []
    for t in strings:
        if t == s_:
            continue
        try:
            lt = prepare_label(t, convert_unicode=cu, to_snake_case=snake)
        except Exception:
            continue
        if lt == label and emitcheck.fold(t, cu) != fs:
            clash.append(t)
    out.check(not clash, "distinct_keys_same_label", lambda: f"{s_!r} and {clash[:4]} all become {label!r} although they differ after case/punctuation folding (cu={cu}, snake={snake})",
              "distinct_keys_same_label")


def parts(tier):
    if tier == "quick":
        return [SMT("quoting", "vflib.props.c11:kernel_quoting", {}, timeout=200, mode="SMT-S"),
                CH("keys", "vflib.props.c11:scen_keys", {}, shards=16, timeout=170, path_timeout=30),
                CH("key_in_child_model", "vflib.props.c11:scen_key_in_child", {}, shards=16, timeout=170, path_timeout=30),
                CH("class_names_vs_root_names", "vflib.props.c03:scen_roots", {"frameworks": ["pydantic", "dataclasses"]}, shards=10, timeout=170, path_timeout=30),
                CH("labels_alphabet", "vflib.props.c11:scen_labels", {"maxlen": 3}, shards=16, timeout=170, path_timeout=30)]
    return [SMT("quoting", "vflib.props.c11:kernel_quoting", {}, timeout=200, mode="SMT-S"),
            CH("keys", "vflib.props.c11:scen_keys", {"pool": "full"}, shards=16, timeout=150, path_timeout=30),
            CH("key_in_child_model", "vflib.props.c11:scen_key_in_child", {}, shards=16, timeout=150, path_timeout=30),
            CH("class_names_vs_root_names", "vflib.props.c03:scen_roots", {}, shards=10, timeout=150, path_timeout=30),
            CH("labels_alphabet", "vflib.props.c11:scen_labels", {"maxlen": 4}, shards=16, timeout=150, path_timeout=60)]


META = {
    "level": "other",
    "technique": "SMT (z3, linear integer arithmetic over one code point) on the quoting expressions read from the source AST, with CPython's literal decoder and json.dumps/repr as validated environment models; CrossHair-exhausted key pool through the real pipeline",
    "mode": "SMT-S + CH-E",
    "explanation": "recoverability of the original key is decided for every Unicode scalar value at each site that writes a key into source text; distinctness / presence of alias or metadata on every pair of keys from a styled + special-character pool",
    "functions_encoded": ["PydanticModelCodeGenerator._get_field_kwargs", "AttrsModelCodeGenerator.field_data", "DataclassModelCodeGenerator.field_data",
                          "prepare_label", "ModelMeta.generate_name", "ModelRegistry.fix_name_duplicates"],
    "symbolic_on_path": ["code point c (SMT)", "pair of keys from the pool", "framework", "unicode conversion bit", "whether the keys name nested models"],
    "bounds": {"quick": "all code points (SMT); 34-key pool: all pairs x 5 frameworks x 2 x 2; every key of <=3 chars over a 10-char alphabet against all others (label injectivity modulo folding)",
               "thorough": "72-key pool; keys of <=4 chars"},
    "outside_claim": ["distinctness of field names for keys outside the pool (unidecode / inflection / regex are not encodable)",
                      "keys containing lone surrogates (not encodable in UTF-8 output)"],
    "assumptions": ["CPython decodes a string literal char-wise (validated each run against ast.literal_eval)", "json.dumps / repr quote char-wise (validated each run)",
                    "attrs/dataclasses metadata is rendered through str(dict), i.e. repr of the key"],
}
if isinstance(META.get("bounds"), dict) and "quick" in META["bounds"]:
    META["bounds"]["quick"] += '; every key of the odd / reserved-variant / symbol-prefixed pools as a field of a child model at depth 1 and 2 x 4 frameworks x 2 layouts'
