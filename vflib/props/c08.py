"""C08 — type simplification reaches a stable normal form (CH-E over a finite universe of IR types + explored inputs)."""
import copy

from vflib import jsonsym
from vflib.parts import CH
from vflib.props import c01


def universe(level):
    from json_to_models.dynamic_typing import (BooleanString, DDict, DList, DOptional, DUnion, FloatString, IntString,
                                               Null, StringLiteral, Unknown)
    L = StringLiteral
    u = [
        ("int", lambda: int), ("float", lambda: float), ("bool", lambda: bool), ("str", lambda: str),
        ("Null", lambda: Null), ("Unknown", lambda: Unknown),
        ("IntString", lambda: IntString), ("FloatString", lambda: FloatString), ("BooleanString", lambda: BooleanString),
        ("Lit{a}", lambda: L({"a"})), ("Lit{b,c}", lambda: L({"b", "c"})), ("Lit{overflow}", lambda: L({"x" * 20})),
        ("List[int]", lambda: DList(int)), ("List[Unknown]", lambda: DList(Unknown)), ("List[Null]", lambda: DList(Null)),
        ("Dict[str]", lambda: DDict(str)), ("Opt[int]", lambda: DOptional(int)), ("model{x:int}", lambda: {"x": int}),
        # raw detection result of [[1, 1.5]] (detection does not simplify; simplification must reach inside nested containers)
        ("List[List[Union[int,float]]]", lambda: DList(DList(DUnion(int, float)))),
        # two disjoint literal sets of ten values: each is within the limit of 15, their union is not (the overflow into str happens
        # only when the members are merged -- for a set inside an Optional member that is at the very end of the simplification)
        ("Lit{a0..a9}", lambda: L({f"a{i}" for i in range(10)})), ("Lit{b0..b9}", lambda: L({f"b{i}" for i in range(10)})),
        ("Opt[Lit{b0..b9}]", lambda: DOptional(L({f"b{i}" for i in range(10)}))),
        # built through the API (say, a caller that wraps every field in Optional): the statement's "Optional is never nested in
        # Optional" is about the result of simplification, whatever it was given
        ("Opt[Opt[float]]", lambda: DOptional(DOptional(float))), ("Opt[List[Opt[Opt[int]]]]", lambda: DOptional(DList(DOptional(DOptional(int))))),
    ]
    if level == "full":
        u += [
            ("Opt[Lit{a}]", lambda: DOptional(L({"a"}))), ("Union[int,str]", lambda: DUnion(int, str)),
            ("Union[float,Null]", lambda: DUnion(float, Null)), ("List[Union[int,Null]]", lambda: DList(DUnion(int, Null))),
            ("List[Lit{a}]", lambda: DList(L({"a"}))), ("List[IntString]", lambda: DList(IntString)),
            ("List[FloatString]", lambda: DList(FloatString)), ("Dict[Unknown]", lambda: DDict(Unknown)),
            ("Dict[int]", lambda: DDict(int)), ("Dict[Null]", lambda: DDict(Null)), ("Opt[List[Unknown]]", lambda: DOptional(DList(Unknown))),
            ("Opt[Null]", lambda: DOptional(Null)), ("Opt[Union[float,Lit{b,c}]]", lambda: DOptional(DUnion(float, L({"b", "c"})))),
            ("model{x:str,y:Opt[int]}", lambda: {"x": str, "y": DOptional(int)}), ("model{}", lambda: {"z": Null}),
            ("List[model{x:int}]", lambda: DList({"x": int})), ("Opt[model{x:float}]", lambda: DOptional({"x": float})),
            ("Union[IntString,BooleanString]", lambda: DUnion(IntString, BooleanString)),
            ("Opt[Union[int,Lit{a}]]", lambda: DOptional(DUnion(int, L({"a"})))),
            ("List[Opt[int]]", lambda: DList(DOptional(int))), ("Union[Lit{a},Lit{overflow}]", lambda: DUnion(L({"a"}), L({"y" * 25}))),
            ("List[List[Null]]", lambda: DList(DList(Null))),
        ]
    return u


def scen_universe(ch, params, out):
    from json_to_models.dynamic_typing import DUnion
    from json_to_models.generator import MetadataGenerator
    from vflib import oracles
    U = universe(params.get("universe", "small"))
    n = len(U)
    k = 1 + ch.pick("size-1", params.get("max", 3))
    combos = [(i, j) for i in range(n) for j in range(i, n)]
    if k == 1:
        idx = [ch.pick("t0", n, shard=True)]
    else:
        i, j = ch.choose("t0,t1", combos, shard=True)
        idx = [i, j]
        if k == 3:
            idx.append(j + ch.pick("t2-t1", n - j))
    # a single member may also stand on its own, without a union around it
    wrap = ch.choose("position", ["union", "field", "optional_field", "list_element"] + (["bare", "bare_field", "bare_list_element"] if k == 1 else []))
    names = [U[i][0] for i in idx]
    out.info = {"members": names, "position": wrap}
    from json_to_models.dynamic_typing import DList, DOptional
    gen = MetadataGenerator()
    t = DUnion(*[U[i][1]() for i in idx]) if not wrap.startswith("bare") else U[idx[0]][1]()
    if wrap == "bare_field":
        t = {"f": t}
    elif wrap == "bare_list_element":
        t = DList(t)
    elif wrap == "field":
        t = {"f": t}
    elif wrap == "optional_field":
        t = {"f": DOptional(t)}
    elif wrap == "list_element":
        t = DList(t)
    try:
        o1 = gen.optimize_type(t)
    except Exception as e:
        out.fail("simplification_raises", f"optimize_type raised {type(e).__name__}: {e} on {wrap} of Union{names}",
                 f"simplification_raises:{type(e).__name__}")
        return
    bad = oracles.normal_form_violations(o1, gen.str_types_registry)
    out.check(not bad, "not_normal_form", lambda: f"{wrap} of Union{names} simplifies to {o1}: {bad}",
              "not_normal_form:" + (bad[0].split(": ", 1)[1].split(" ")[0] if bad else ""))
    c1 = oracles.canon_str(oracles.canon_type(o1))
    try:
        o2 = gen.optimize_type(o1)
    except Exception as e:
        out.fail("second_pass_raises", f"second optimize_type raised {type(e).__name__}: {e} on {o1} (from {wrap} of Union{names})",
                 f"second_pass_raises:{type(e).__name__}")
        return
    c2 = oracles.canon_str(oracles.canon_type(o2))
    out.check(c1 == c2, "not_idempotent", lambda: f"{wrap} of Union{names}: first pass {c1}, second pass {c2}", "not_idempotent")


def scen_inputs(ch, params, out):
    """Normal form + idempotence on every IR produced from explored inputs (before / after the registry's second pass)."""
    from vflib import oracles
    st = c01.explore(ch, params, out)
    if st is None:
        out.failures[:] = [dict(f, kind="simplification_raises_on_input", fingerprint="simplification_raises_on_input")
                           for f in out.failures]
        return
    gen, reg = st["gen"], st["reg"]
    for m in reg.models:
        bad = oracles.normal_form_violations(m.type, gen.str_types_registry)
        out.check(not bad, "not_normal_form", lambda: f"model {m.name}: {bad} for samples {st['samples']}", "not_normal_form:input")
    before = oracles.canon_registry(reg)
    try:
        for m in reg.models:
            gen.optimize_type(m)
    except Exception as e:
        out.fail("second_pass_raises", f"{type(e).__name__}: {e} for samples {st['samples']}", f"second_pass_raises:{type(e).__name__}")
        return
    after = oracles.canon_registry(reg)
    out.check(before == after, "not_idempotent", lambda: f"{before} -> {after} for samples {st['samples']}", "not_idempotent")


def scen_late_registration(ch, params, out):
    """a pseudo-type registered AFTER the generator object exists must take part in simplification like any other"""
    from json_to_models.dynamic_typing import (BooleanString, FloatString, IntString, StringSerializableRegistry, register_datetime_classes)
    from json_to_models.generator import MetadataGenerator
    from vflib import oracles
    vals = ["2018-12-31", "12:58:12", "2018-12-31T12:58:12", "true", "12", "abc", None, 7]
    v1, v2 = ch.choose("values", [(a, b) for a in vals for b in vals], shard=True)
    wrap = ch.choose("position", ["field", "list", "both_in_one_list"])
    when = ch.choose("datetime_types_registered", ["before_generator_is_created", "after_generator_is_created"])
    reg = StringSerializableRegistry()
    reg.add(cls=IntString)
    reg.add(replace_types=(IntString,), cls=FloatString)
    reg.add(cls=BooleanString)
    if when.startswith("before"):
        register_datetime_classes(reg)
    gen = MetadataGenerator(str_types_registry=reg)
    if when.startswith("after"):
        register_datetime_classes(reg)
    samples = [{"a": v1}, {"a": v2}] if wrap == "field" else ([{"a": [v1]}, {"a": [v2]}] if wrap == "list" else [{"a": [v1, v2]}])
    out.info = {"values": [v1, v2], "position": wrap, "when": when}
    try:
        ir = gen.generate(*samples)
    except Exception as e:
        out.fail("simplification_raises_on_input", f"{type(e).__name__}: {e} for {samples} ({when})", "simplification_raises_on_input")
        return
    bad = oracles.normal_form_violations(ir, reg)
    out.check(not bad, "not_normal_form", lambda: f"{samples} with datetime types registered {when}: {ir} -> {bad}", "not_normal_form:late_registration")
    c1 = oracles.canon_str(oracles.canon_ir(ir))
    ir2 = gen.optimize_type(ir)
    out.check(c1 == oracles.canon_str(oracles.canon_ir(ir2)), "not_idempotent", lambda: f"{samples} ({when}): {c1} -> second pass differs", "not_idempotent")
    # the simplified type is a function of the registry's content, not of the moment its types were registered
    reg_b = StringSerializableRegistry()
    reg_b.add(cls=IntString)
    reg_b.add(replace_types=(IntString,), cls=FloatString)
    reg_b.add(cls=BooleanString)
    register_datetime_classes(reg_b)
    ref = MetadataGenerator(str_types_registry=reg_b).generate(*samples)
    cref = oracles.canon_str(oracles.canon_ir(ref))
    out.check(c1 == cref, "simplification_depends_on_registration_time",
              lambda: f"{samples}: with datetime types registered {when}: {c1}; registered before the generator existed: {cref}", "simplification_depends_on_registration_time")


X_ATOMS = {"int": 1, "float": 1.5, "lit": "auto", "lit2": "manual", "null": None, "absent": None, "intstr": "12",
           # ten distinct short strings each: two such sets together exceed the literal limit of 15 only once they are merged
           "lits_a": [f"a{i}" for i in range(10)], "lits_b": [f"b{i}" for i in range(10)]}


def _check_registry(out, gen, reg, ctx, tag):
    from vflib import oracles
    for m in reg.models:
        bad = oracles.normal_form_violations(m.type, gen.str_types_registry)
        out.check(not bad, "not_normal_form", lambda: f"model {m.name}: {bad} ({ctx()})", f"not_normal_form:{tag}")
    before = oracles.canon_registry(reg)
    try:
        for m in reg.models:
            gen.optimize_type(m)
    except Exception as e:
        out.fail("second_pass_raises", f"{type(e).__name__}: {e} ({ctx()})", f"second_pass_raises:{type(e).__name__}")
        return
    after = oracles.canon_registry(reg)
    out.check(before == after, "not_idempotent", lambda: f"{before} -> {after} ({ctx()})", f"not_idempotent:{tag}")


def scen_registry_merge(ch, params, out):
    """Two object lists under sibling keys hold objects with the same keys, so the registry merges their (already simplified)
    models: the merged field x is the union of two simplified types, in registration order, and must be in normal form again."""
    import copy
    from vflib import pipeline
    names = params.get("atoms", ["int", "float", "lit", "null", "absent"])
    subsets = [[a for j, a in enumerate(names) if m >> j & 1] for m in range(1, 2 ** len(names))]
    sa, sb = ch.choose("x_values(a,b)", [(x, y) for x in subsets for y in subsets], shard=True)
    wrap = ch.choose("wrapping", ["list_of_objects", "object_per_sample"])

    def objs(atoms):
        res = []
        for a in atoms:
            for v in (X_ATOMS[a] if isinstance(X_ATOMS[a], list) else [X_ATOMS[a]]):
                o = {"k1": 1, "k2": "abc", "k3": 2.5}
                if a != "absent":
                    o["x"] = v
                res.append(o)
        return res
    if wrap == "list_of_objects":
        samples = [{"a": objs(sa), "b": objs(sb)}]
    else:
        n = max(len(sa), len(sb))
        oa, ob = objs(sa), objs(sb)
        samples = [{"a": oa[i % len(oa)], "b": ob[i % len(ob)]} for i in range(n)]
    out.info = {"a": sa, "b": sb, "wrapping": wrap}
    ctx = lambda: f"x values under a: {sa}, under b: {sb}, {wrap}"
    try:
        gen, reg, _ = pipeline.infer({"Root": copy.deepcopy(samples)})
    except Exception as e:
        out.fail("simplification_raises_on_input", f"{type(e).__name__}: {e} ({ctx()})", "simplification_raises_on_input")
        return
    out.check(len(list(reg.models)) == 2, "harness_expectation", lambda: f"expected the two item models to merge ({ctx()})", "harness_expectation")
    _check_registry(out, gen, reg, ctx, "registry_merge")


def scen_two_rounds(ch, params, out):
    """One registry used for two rounds of registration + merge: models merged in the second round are members of unions that
    were simplified in the first (the union must be simplified again: no duplicate members, no single-member union)."""
    from json_to_models.generator import MetadataGenerator
    from json_to_models.registry import ModelFieldsNumberMatch, ModelRegistry
    U = ["k0", "k1", "k2", "k3", "k4"][:params.get("keys", 4)]
    subsets = [[k for j, k in enumerate(U) if m >> j & 1] for m in range(1, 2 ** len(U))]
    ka, kx = ch.choose("payload_keys(first,second)", [(a, b) for a in subsets for b in subsets], shard=True)
    kn = ch.choose("third_object_keys", subsets)
    where = ch.choose("third_object_position", ["own_root", "same_field_of_a_similar_root"])
    calls = ch.choose("merge_calls", ["after_each_round", "once_at_the_end"])
    gen = MetadataGenerator()
    reg = ModelRegistry(ModelFieldsNumberMatch(2))
    out.info = {"first": ka, "second": kx, "third": kn, "where": where, "calls": calls}
    ctx = lambda: f"payload keys {ka} / {kx}, third object {kn} as {where}, merge {calls}"
    try:
        reg.process_meta_data(gen.generate({"payload": {k: 1 for k in ka}, "r1": 1, "r2": 2}), model_name="Event")
        reg.process_meta_data(gen.generate({"payload": {k: 1 for k in kx}, "r1": 1, "r2": 2}), model_name="Alert")
        if calls == "after_each_round":
            reg.merge_models(generator=gen)
        third = {"payload": {k: 1 for k in kn}, "r1": 1, "r2": 2} if where != "own_root" else {"other": {k: 1 for k in kn}, "z": 1}
        reg.process_meta_data(gen.generate(third), model_name="Third")
        reg.merge_models(generator=gen)
        reg.generate_names()
    except Exception as e:
        out.fail("simplification_raises_on_input", f"{type(e).__name__}: {e} ({ctx()})", "simplification_raises_on_input")
        return
    _check_registry(out, gen, reg, ctx, "two_rounds")


def parts(tier):
    if tier == "quick":
        return [
            CH("universe24", "vflib.props.c08:scen_universe", {"universe": "small", "max": 3}, shards=16, timeout=170, path_timeout=30),
            CH("inputs", "vflib.props.c08:scen_inputs", {"kinds": "KINDS_FULL", "samples": 2, "keys": ["a"], "symbolic_leaves": False,
                                                         "merge": ["default"]},
               shards=16, timeout=170, path_timeout=30),
            CH("late_registration", "vflib.props.c08:scen_late_registration", {}, shards=16, timeout=170, path_timeout=30),
            CH("inputs_two_nested", "vflib.props.c08:scen_inputs", {"kinds": "KINDS_NEST", "samples": 1, "keys": ["a", "b"],
                                                                     "symbolic_leaves": False, "merge": ["default", "p50n2"]},
               shards=16, timeout=170, path_timeout=30),
            CH("registry_merge_of_simplified_fields", "vflib.props.c08:scen_registry_merge", {}, shards=16, timeout=170, path_timeout=30),
            CH("two_rounds_on_one_registry", "vflib.props.c08:scen_two_rounds", {"keys": 4}, shards=16, timeout=170, path_timeout=30),
            CH("registry_merge_literal_overflow", "vflib.props.c08:scen_registry_merge", {"atoms": ["lits_a", "lits_b", "intstr", "lit", "null", "absent"]},
               shards=16, timeout=170, path_timeout=30),
        ]
    return [
        CH("registry_merge_of_simplified_fields", "vflib.props.c08:scen_registry_merge", {"atoms": ["int", "float", "lit", "lit2", "null", "absent", "intstr"]},
           shards=16, timeout=150, path_timeout=30),
        CH("two_rounds_on_one_registry", "vflib.props.c08:scen_two_rounds", {"keys": 5}, shards=16, timeout=150, path_timeout=30),
        CH("registry_merge_literal_overflow", "vflib.props.c08:scen_registry_merge", {"atoms": ["lits_a", "lits_b", "intstr", "lit", "null", "absent", "float"]},
           shards=16, timeout=150, path_timeout=30),
        CH("late_registration", "vflib.props.c08:scen_late_registration", {}, shards=16, timeout=150, path_timeout=30),
        CH("universe46", "vflib.props.c08:scen_universe", {"universe": "full", "max": 3}, shards=16, timeout=150, path_timeout=30),
        CH("inputs", "vflib.props.c08:scen_inputs", {"kinds": "KINDS_FULL", "samples": 2, "keys": ["a"], "symbolic_leaves": False,
                                                     "merge": ["default", "p50n2"], "dkf": True}, shards=16, timeout=150, path_timeout=30),
        CH("inputs_grammar_depth1_pairs", "vflib.props.c08:scen_inputs", {"kinds": "GRAMMAR1", "samples": 2, "keys": ["a"], "symbolic_leaves": False},
           shards=16, timeout=150, path_timeout=30),
        CH("inputs_grammar_depth2_pairs", "vflib.props.c08:scen_inputs", {"kinds": "GRAMMAR2", "samples": 2, "keys": ["a"], "symbolic_leaves": False},
           shards=16, timeout=150, path_timeout=30),
        CH("inputs3", "vflib.props.c08:scen_inputs", {"kinds": "KINDS_SMALL", "samples": 3, "keys": ["a"], "symbolic_leaves": False},
           shards=16, timeout=150, path_timeout=30),
        CH("inputs_nested", "vflib.props.c08:scen_inputs", {"kinds": "KINDS_NEST", "samples": 2, "keys": ["a", "b"], "symbolic_leaves": False,
                                                            "merge": ["default", "p50n2"]}, shards=16, timeout=150, path_timeout=30),
    ]


META = {
    "level": "exploration", "mode": "CH-E",
    "explanation": "every multiset of <=3 types from the universe, in 4 positions, is simplified twice by the real optimize_type; plus every IR from explored inputs",
    "functions_encoded": ["MetadataGenerator.optimize_type", "MetadataGenerator._optimize_union", "MetadataGenerator.merge_field_sets",
                          "DUnion.__init__", "StringSerializableRegistry.resolve", "ModelRegistry.merge_models (second pass)"],
    "symbolic_on_path": ["multiset size", "member selectors", "position of the union", "input genome"],
    "bounds": {"thorough": "40 types (depth<=2), multisets of <=3, 4 positions; inputs: 2 samples x 23 kinds x 2 merge policies x dict-field bit; 3 samples x 10 kinds; 2 samples x 2 nested keys x 12 kinds",
               "quick": "18 types (depth<=1), multisets of <=3, positions {bare union, field, optional field, list element}; inputs: 2 samples x 23 kinds"},
    "outside_claim": ["types deeper than the universe's", "multisets of more than 3 members"],
    "assumptions": ["normal form as listed in the statement; Optional[None] (an all-null field) is not excluded by it"],
}
if isinstance(META.get("bounds"), dict) and "quick" in META["bounds"]:
    META["bounds"]["quick"] += '; registry merge of two simplified fields (31 x 31 subsets of 5 atoms x 2 wrappings); two rounds of registration + merge on one registry (15^3 key sets x 2 x 2)'
