"""Independent oracles, written against the property texts (plain Python; never call the code under test to decide)."""
import typing
from inspect import isclass

from json_to_models.dynamic_typing import (DDict, DList, DOptional, DUnion, ModelMeta, ModelPtr, Null, StringLiteral,
                                           StringSerializable, Unknown)


def str_accepts(T, s):
    try:
        T.to_internal_value(s)
        return True
    except ValueError:
        return False
    except Exception:
        return False


def fields_of(t):
    """dict of fields if `t` denotes a model, else None."""
    if isinstance(t, ModelPtr):
        t = t.type
    if isinstance(t, ModelMeta):
        t = t.type
    return t if isinstance(t, dict) else None


# ------------------------------------------------------------------------------------------------ IR level
def inhabits_ir(v, t, why=None, path="$"):
    """Does JSON value `v` lie in IR type `t`?  `why` (list) collects the first reasons for rejection."""
    def no(msg):
        if why is not None and len(why) < 6:
            why.append(f"{path}: {msg}")
        return False

    f = fields_of(t)
    if f is not None:
        if not isinstance(v, dict):
            return no(f"{type(v).__name__} is not an object")
        for k, val in v.items():
            if k not in f:
                return no(f"key {k!r} has no field")
            if not inhabits_ir(val, f[k], why, f"{path}.{k}"):
                return False
        for k, ft in f.items():
            if k not in v and not isinstance(ft, DOptional):
                return no(f"required field {k!r} absent")
        return True
    if t is Unknown:
        return True
    if t is Null:
        return v is None or no("not null")
    if isinstance(t, DOptional):
        return v is None or inhabits_ir(v, t.type, why, path)
    if isinstance(t, DUnion):
        if any(inhabits_ir(v, m) for m in t.types):
            return True
        return no(f"{v!r} in no member of {t}")
    if isinstance(t, DList):
        if not isinstance(v, list):
            return no(f"{type(v).__name__} is not a list")
        return all(inhabits_ir(x, t.type, why, f"{path}[{i}]") for i, x in enumerate(v))
    if isinstance(t, DDict):
        if not isinstance(v, dict):
            return no(f"{type(v).__name__} is not a dict")
        return all(inhabits_ir(x, t.type, why, f"{path}[{k!r}]") for k, x in v.items())
    if isinstance(t, StringLiteral):
        if not isinstance(v, str):
            return no("not a string")
        return t.overflowed or v in t.literals or no(f"{v!r} not in literals {sorted(t.literals)}")
    if isclass(t):
        if issubclass(t, StringSerializable):
            return (isinstance(v, str) and str_accepts(t, v)) or no(f"{v!r} not accepted by {t.__name__}")
        if t is bool:
            return type(v) is bool or no(f"{v!r} is not bool")
        if t is int:
            return type(v) is int or no(f"{v!r} is not int")
        if t is float:
            return type(v) in (int, float) or no(f"{v!r} is not a number")
        if t is str:
            return isinstance(v, str) or no(f"{v!r} is not str")
    return no(f"unknown IR node {t!r}")


# ------------------------------------------------------------------------------------------------ emitted level
PYDANTIC_STYLE = ("pydantic", "sqlmodel")


def inhabits_typing(v, tp, ctx, why=None, path="$"):
    """Does JSON value `v` lie in the evaluated annotation `tp`?

    ctx: dict(ld=Loaded, framework=str, field_table=callable(cls)->table, keymap=callable(key)->python name).
    Model classes of the emitted module are interpreted structurally through their field tables."""
    def no(msg):
        if why is not None and len(why) < 6:
            why.append(f"{path}: {msg}")
        return False

    fw = ctx["framework"]
    if type(tp).__name__ == "Unresolvable":
        return no(f"annotation does not evaluate: {tp.why}")
    if tp is typing.Any:
        return True
    if tp is None or tp is type(None):
        return v is None or no("not null")
    origin = typing.get_origin(tp)
    args = typing.get_args(tp)
    if origin is typing.Union:
        if any(inhabits_typing(v, a, ctx) for a in args):
            return True
        return no(f"{v!r} in no member of {tp}")
    if origin in (list, typing.List):
        if not isinstance(v, list):
            return no("not a list")
        return all(inhabits_typing(x, args[0], ctx, why, f"{path}[{i}]") for i, x in enumerate(v))
    if origin in (dict, typing.Dict):
        if not isinstance(v, dict):
            return no("not a dict")
        return all(isinstance(k, str) and inhabits_typing(x, args[1], ctx, why, f"{path}[{k!r}]") for k, x in v.items())
    if origin is typing.Literal:
        return any(type(a) is type(v) and a == v for a in args) or no(f"{v!r} not in {tp}")
    if isclass(tp):
        if tp in ctx["ld"].enclosing:   # a class of the emitted module
            if not isinstance(v, dict):
                return no("not an object")
            table = ctx["field_table"](tp)
            by_key = {}
            for fname, rec in table.items():
                by_key.setdefault(rec["key"] if rec["key"] is not None else fname, []).append(fname)
            used = set()
            for k, val in v.items():
                cands = by_key.get(k) if k in by_key else by_key.get(ctx["keymap"](k))
                if not cands:
                    if val is None and fw in PYDANTIC_STYLE:
                        continue    # the only keys that may be dropped: null-only keys in pydantic/sqlmodel output
                    return no(f"key {k!r} maps to no field of {tp.__name__}")
                if len(cands) != 1:
                    return no(f"key {k!r} maps to several fields {cands}")
                used.add(cands[0])
                if not inhabits_typing(val, table[cands[0]]["annotation"], ctx, why, f"{path}.{k}"):
                    return False
            for fname, rec in table.items():
                # `base` output is bare annotations: nothing in it can have a default, so presence is not enforceable there
                if fw != "base" and fname not in used and not rec["has_default"]:
                    return no(f"field {fname!r} of {tp.__name__} has no default and the sample lacks it")
            return True
        if issubclass(tp, StringSerializable):
            return (isinstance(v, str) and str_accepts(tp, v)) or no(f"{v!r} not accepted by {tp.__name__}")
        if fw in PYDANTIC_STYLE and isinstance(v, str) and tp is not str:
            from json_to_models.dynamic_typing import registry as _r
            import json_to_models.dynamic_typing as dt
            for T in (dt.IntString, dt.FloatString, dt.BooleanString, dt.IsoDateString, dt.IsoTimeString, dt.IsoDatetimeString):
                if T.actual_type is tp and str_accepts(T, v):
                    return True
            return no(f"string {v!r} not parseable as {tp.__name__}")
        if tp is bool:
            return type(v) is bool or no("not bool")
        if tp is int:
            return type(v) is int or no("not int")
        if tp is float:
            return type(v) in (int, float) or no("not a number")
        if tp is str:
            return isinstance(v, str) or no("not str")
    return no(f"cannot interpret annotation {tp!r}")


# ------------------------------------------------------------------------------------------------ canonical forms
def canon_type(t):
    """Set-like canonical form of an IR type (field order, union order and class-name suffixes do not matter)."""
    f = fields_of(t)
    if f is not None:
        return ("model", tuple(sorted(f.keys())))
    if t is Unknown:
        return "Any"
    if t is Null:
        return "None"
    if isinstance(t, DOptional):
        return ("opt", canon_type(t.type))
    if isinstance(t, DUnion):
        return ("union", frozenset(canon_type(m) for m in t.types))
    if isinstance(t, DList):
        return ("list", canon_type(t.type))
    if isinstance(t, DDict):
        return ("dict", canon_type(t.type))
    if isinstance(t, StringLiteral):
        return ("lit", "..." if t.overflowed else frozenset(t.literals))
    if isclass(t):
        return t.__name__
    return repr(t)


def canon_ir(t):
    """Deep canonical form of a pre-registry IR (nested field dicts are expanded, not abbreviated)."""
    if isinstance(t, dict):
        return ("model", frozenset((k, canon_ir(v)) for k, v in t.items()))
    if isinstance(t, DOptional):
        return ("opt", canon_ir(t.type))
    if isinstance(t, DUnion):
        return ("union", frozenset(canon_ir(m) for m in t.types))
    if isinstance(t, DList):
        return ("list", canon_ir(t.type))
    if isinstance(t, DDict):
        return ("dict", canon_ir(t.type))
    return canon_type(t)


def canon_str(x):
    """deterministic text of a canonical form (repr of a frozenset depends on its iteration order)"""
    if isinstance(x, (frozenset, set)):
        return "{" + ", ".join(sorted(canon_str(e) for e in x)) + "}"
    if isinstance(x, tuple):
        return "(" + ", ".join(canon_str(e) for e in x) + ")"
    return repr(x)


def canon_registry(reg):
    out = []
    for m in reg.models:
        out.append(canon_str(frozenset((k, isinstance(v, DOptional), canon_type(v)) for k, v in m.type.items())))
    return sorted(out)


# ------------------------------------------------------------------------------------------------ C08 normal form
def _member_key(t):
    """identity of a union member: pointers to two different models are different members even when the models have the same keys
    (whether such models are merged is the merge policy's decision, C05), everything else is compared structurally"""
    if isinstance(t, ModelPtr):
        return ("ptr", id(t.type))
    if isinstance(t, DOptional):
        return ("opt", _member_key(t.type))
    if isinstance(t, DUnion):
        return ("union", frozenset(_member_key(m) for m in t.types))
    if isinstance(t, DList):
        return ("list", _member_key(t.type))
    if isinstance(t, DDict):
        return ("dict", _member_key(t.type))
    return canon_type(t)


def normal_form_violations(t, str_registry, path="$"):
    """List of violations of the normal form stated by C08 anywhere inside IR type `t`."""
    bad = []
    f = fields_of(t)
    if f is not None and not isinstance(t, ModelPtr):
        for k, v in f.items():
            bad += normal_form_violations(v, str_registry, f"{path}.{k}")
        return bad
    if isinstance(t, ModelPtr):
        return bad
    if isinstance(t, DOptional):
        if isinstance(t.type, DOptional):
            bad.append(f"{path}: Optional nested in Optional")
        if t.type is Null:
            pass  # Optional[None] is what an all-null field is; not excluded by the statement
        return bad + normal_form_violations(t.type, str_registry, path + "?")
    if isinstance(t, DUnion):
        ms = list(t.types)
        if len(ms) == 0:
            bad.append(f"{path}: empty union")
        if len(ms) == 1:
            bad.append(f"{path}: single-member union {t}")
        if any(isinstance(m, DUnion) for m in ms):
            bad.append(f"{path}: nested union {t}")
        keys = [canon_str(_member_key(m)) for m in ms]
        if len(set(keys)) != len(keys):
            bad.append(f"{path}: duplicate members {t}")
        if any(m is Null for m in ms):
            bad.append(f"{path}: null inside union {t}")
        if any(isinstance(m, DOptional) for m in ms):
            bad.append(f"{path}: Optional inside union {t}")
        if int in ms and float in ms:
            bad.append(f"{path}: int next to float {t}")
        if str in ms and any(isinstance(m, StringLiteral) or (isclass(m) and issubclass(m, StringSerializable)) for m in ms):
            bad.append(f"{path}: str next to literal/pseudo-type {t}")
        for i, m in enumerate(ms):
            bad += normal_form_violations(m, str_registry, f"{path}|{i}")
        return bad
    if isinstance(t, (DList, DDict)):
        return normal_form_violations(t.type, str_registry, path + "[]")
    return bad


# ------------------------------------------------------------------------------------------------ C04 independent renderer
def ir_to_typing(t, framework, max_literals, class_of_model):
    """Independent rendering of an IR type as a `typing` object under the given framework's style."""
    if isinstance(t, ModelPtr):
        return class_of_model(t.type)
    if t is Unknown:
        return typing.Any
    if t is Null:
        return type(None)
    if isinstance(t, DOptional):
        return typing.Optional[ir_to_typing(t.type, framework, max_literals, class_of_model)]
    if isinstance(t, DUnion):
        return typing.Union[tuple(ir_to_typing(m, framework, max_literals, class_of_model) for m in t.types)]
    if isinstance(t, DList):
        return typing.List[ir_to_typing(t.type, framework, max_literals, class_of_model)]
    if isinstance(t, DDict):
        return typing.Dict[str, ir_to_typing(t.type, framework, max_literals, class_of_model)]
    if isinstance(t, StringLiteral):
        if framework == "attrs" or t.overflowed or not t.literals:
            return str
        if len(t.literals) < max_literals:
            return typing.Literal[tuple(sorted(t.literals))]
        return str
    if isclass(t):
        if issubclass(t, StringSerializable):
            return t.actual_type if framework in PYDANTIC_STYLE else t
        return t
    raise ValueError(f"cannot render {t!r}")


# ------------------------------------------------------------------------------------------------ C02 tightness
def _model_of(t):
    if isinstance(t, ModelPtr):
        return t.type
    return None


def route_objects(root_model, samples):
    """Phase 1: which sample objects reach which model (a value is routed into every union member it inhabits)."""
    routed = {}
    seen = set()
    work = [(root_model, s) for s in samples]
    while work:
        model, obj = work.pop()
        if (id(model), id(obj)) in seen:
            continue
        seen.add((id(model), id(obj)))
        routed.setdefault(model.index, (model, []))[1].append(obj)
        for k, ft in model.type.items():
            if k in obj:
                _descend(obj[k], ft, work)
    return routed


def _descend(v, t, work):
    m = _model_of(t)
    if m is not None:
        if isinstance(v, dict) and inhabits_ir(v, t):
            work.append((m, v))
        return
    if isinstance(t, DOptional):
        if v is not None:
            _descend(v, t.type, work)
    elif isinstance(t, DUnion):
        for mem in t.types:
            if inhabits_ir(v, mem):
                _descend(v, mem, work)
    elif isinstance(t, DList):
        if isinstance(v, list):
            for x in v:
                _descend(x, t.type, work)
    elif isinstance(t, DDict):
        if isinstance(v, dict):
            for x in v.values():
                _descend(x, t.type, work)


def first_accepting(registry, s):
    for T in registry:
        if str_accepts(T, s):
            return T
    return None


def _covers(registry, a, b):
    """does pseudo-type b cover a through the reflexive-transitive closure of the registry's replace relation?"""
    seen, work = {a}, [a]
    while work:
        x = work.pop()
        if x is b:
            return True
        for (p, q) in registry.replaces:
            if p is x and q not in seen:
                seen.add(q)
                work.append(q)
    return False


def str_widening_justified(registry, strs):
    """`str` is a documented widening only if literals overflow (a plain string of >=20 chars, or more than 15
    distinct plain strings) or several string pseudo-types occur that have no common covering type among them."""
    plain = {s for s in strs if first_accepting(registry, s) is None}
    pseudo = {first_accepting(registry, s) for s in strs} - {None}
    if any(len(s) >= 20 for s in plain) or len(plain) > 15:
        return True
    if len(pseudo) >= 2 and not any(all(_covers(registry, a, b) for a in pseudo) for b in pseudo):
        return True
    return False


def tightness_violations(root_model, samples, registry=None):
    """Phase 2: every Optional / union member / element type / literal / Any in the final graph has a witness."""
    bad = []
    routed = route_objects(root_model, samples)

    def check(vals, t, path, in_container=False):
        if _model_of(t) is not None:
            if not any(isinstance(v, dict) for v in vals):
                bad.append(f"{path}: model reference without any object value (values {vals[:4]})")
            return
        if t is Unknown:
            if not in_container:
                bad.append(f"{path}: Any outside a container")
            elif not all(v is None for v in vals):
                bad.append(f"{path}: Any as element type although elements {vals[:4]} were observed")
            return
        if t is Null:
            if not any(v is None for v in vals):
                bad.append(f"{path}: None type without a null value")
            return
        if isinstance(t, DOptional):
            if not any(v is None for v in vals):
                bad.append(f"{path}: Optional without a null value (values {vals[:4]})")
            if t.type is not Null:
                check([v for v in vals if v is not None], t.type, path + "?", in_container)
            return
        if isinstance(t, DUnion):
            for i, mem in enumerate(t.types):
                sub = [v for v in vals if inhabits_ir(v, mem)]
                if not sub:
                    bad.append(f"{path}: union member {mem} has no inhabitant among {vals[:5]}")
                else:
                    # a value admitted by several members is a witness for each of them, but what is demanded
                    # *inside* a member is judged on the values only that member admits (when there are any)
                    excl = [v for v in sub if sum(1 for m2 in t.types if inhabits_ir(v, m2)) == 1]
                    check(excl or sub, mem, f"{path}|{i}", in_container)
            return
        if isinstance(t, DList):
            lists = [v for v in vals if isinstance(v, list)]
            if not lists:
                bad.append(f"{path}: list type without a list value")
            check([x for l in lists for x in l], t.type, path + "[]", True)
            return
        if isinstance(t, DDict):
            ds = [v for v in vals if isinstance(v, dict)]
            if not ds:
                bad.append(f"{path}: dict type without an object value")
            check([x for d in ds for x in d.values()], t.type, path + "{}", True)
            return
        if isinstance(t, StringLiteral):
            strs = {v for v in vals if isinstance(v, str)}
            if not t.overflowed and not set(t.literals) <= strs:
                bad.append(f"{path}: literal lists {sorted(set(t.literals) - strs)} which never occurred")
            if not strs:
                bad.append(f"{path}: literal type without a string value")
            return
        if isclass(t):
            if issubclass(t, StringSerializable):
                ok = any(isinstance(v, str) and str_accepts(t, v) for v in vals)
            elif t is bool:
                ok = any(type(v) is bool for v in vals)
            elif t is int:
                ok = any(type(v) is int for v in vals)
            elif t is float:
                ok = any(type(v) is float for v in vals)
            elif t is str:
                strs = [v for v in vals if isinstance(v, str)]
                ok = bool(strs)
                if ok and registry is not None and not str_widening_justified(registry, strs):
                    bad.append(f"{path}: str although the observed strings {sorted(set(strs))[:6]}.. neither overflow the "
                               f"literal limits nor mix unrelated pseudo-types")
            else:
                ok = False
            if not ok:
                bad.append(f"{path}: type {t.__name__} without an inhabitant among {vals[:5]}")
            return
        bad.append(f"{path}: unknown IR node {t!r}")

    for index, (model, objs) in routed.items():
        for k, ft in model.type.items():
            vals = [o[k] for o in objs if k in o]
            missing = any(k not in o for o in objs)
            p = f"{model.name or index}.{k}"
            if isinstance(ft, DOptional):
                if not (missing or any(v is None for v in vals)):
                    bad.append(f"{p}: optional although every routed object has a non-null value")
                if ft.type is Null:
                    check(vals, Null, p)
                else:
                    check([v for v in vals if v is not None], ft.type, p)
            else:
                check(vals, ft, p)
    return bad
