"""Program genome: structural template x key-style selectors x framework/layout/options -> (registry, emitted text).

Shared by C03 / C04 / C11 / C12 (each applies its own oracle to the same family of emitted programs)."""
import copy

from vflib import emitcheck, pipeline

FRAMEWORKS = ["base", "pydantic", "sqlmodel", "attrs", "dataclasses"]


def template(name, k1, k2, k3):
    """list of samples for the structural template `name` with the styled keys plugged in."""
    if name == "flat_scalars":
        return [{k1: 1, k2: "abc", "plain": 1.5}, {k1: 2, "plain": 2.5}]
    if name == "nested_object":
        return [{k1: 1, k2: {k3: "v", "n": 1}}, {k1: None, k2: {k3: "w", "n": 2, "extra": [1, 2]}}]
    if name == "list_of_objects":
        return [{k1: [{k3: 1, "n": "12"}, {k3: "s", "n": "13", "opt": None}], k2: "2020-01-02"}, {k1: [], k2: "x"}]
    if name == "two_similar_children":      # the two children are merged by the default policy -> a shared model
        return [{k1: {k3: 1, "a": 1, "b": 2, "c": 3}, k2: {k3: 2, "a": 1, "b": 2, "c": 3}}]
    if name == "optional_containers":
        # optional list / dict / list of objects under the styled keys (k2 is made a Dict by its digit keys being few: see dkf in C13;
        # here: a list that is missing in one sample, an object list that is missing, a nested model that is missing)
        return [{k1: [1, 2], k2: [{k3: 1, "n": "x"}], "inner": {"v": 1}}, {"plain": 1}]
    if name == "deep_chain":
        return [{k1: {k2: {k3: {"leaf": 1}}}, "tail": [{"leaf2": "1.5"}]}]
    if name == "optional_pseudo":
        return [{k1: "12", k2: [{"n": "1.5", k3: "true"}]}, {k2: []}]
    if name == "odd_values_nested":
        # odd characters in the string values (future Literal members) and keys of NESTED models (indentation code sees them)
        return [{k1: {k3: "v\u2028w", "emoji": "\U0001F600", "n\x85el": 1}, k2: [{"lit": "a\u2029b"}, {"lit": "plain"}]},
                {k1: {k3: "other", "emoji": "x", "n\x85el": 2}, k2: []}]
    if name == "deep_sole_import":
        # three levels; the first sibling's grandchild is the only user of Dict/Any/Optional/Literal; the last sibling needs no import
        return [{k1: {"mid": {"extra": {}, "opt": None, "lit": "abc", k3: 1}, "m": 1}, k2: {"plainint": 1}, "zlast": {"n": 2}},
                {k1: {"mid": {"extra": {}, "opt": None, "lit": "xyz", k3: 2}, "m": 2}, k2: {"plainint": 2}, "zlast": {"n": 3}}]
    if name == "odd_string_values":       # string values (future Literal members) with control characters, quotes, backslashes
        return [{k1: "line\r\nend", k2: 'q"uote\\', k3: "tab\tand\x0bvt"}, {k1: "plain", k2: "\u2028sep", k3: "nul\x00byte"}]
    if name == "recursive":
        return [{k1: 1, "next": {k1: 2, "next": {k1: 3, "next": None, k2: "t"}, k2: "u"}, k2: "v"}]
    raise ValueError(name)


TEMPLATES_QUICK = ["flat_scalars", "nested_object", "list_of_objects", "two_similar_children", "odd_string_values", "deep_sole_import", "odd_values_nested"]
TEMPLATES_FULL = TEMPLATES_QUICK + ["deep_chain", "optional_pseudo", "recursive"]


def choose_program(ch, params):
    pool = getattr(emitcheck, params.get("pool", "KEY_POOL_QUICK"))
    templates = params.get("templates", TEMPLATES_QUICK)
    styled = params.get("styled", "k1k2")
    if styled == "k1k2":
        pairs = [(a, b) for i, a in enumerate(pool) for b in pool[i + 1:]]
        k1, k2 = ch.choose("keys(k1,k2)", pairs, shard=True)
        k3 = "value"
    elif styled == "k3":
        k3 = ch.choose("key(k3)", pool, shard=True)
        k1, k2 = "alpha", "beta"
    elif styled == "k1":
        k1 = ch.choose("key(k1)", pool, shard=True)
        k2, k3 = "beta", "value"
    elif styled == "any1":
        # one pool key in any of the three positions (field of the root, key that names a nested model, field of the nested model)
        key, pos = ch.choose("key,position", [(k, p) for k in pool for p in range(3)], shard=True)
        ks = ["alpha", "beta", "value"]
        ks[pos] = key
        k1, k2, k3 = ks
    else:
        k1, k2, k3 = ch.choose("keys(k1,k2,k3)", [(a, b, c) for a in pool for b in pool for c in pool if len({a, b, c}) == 3], shard=True)
    tname = ch.choose("template", templates)
    fw = ch.choose("framework", params.get("frameworks", FRAMEWORKS))
    layout = ch.choose("layout", params.get("layouts", ["flat", "nested"]))
    kwargs = {}
    if params.get("options"):
        kwargs["convert_unicode"] = ch.flag("convert_unicode")
        kwargs["max_literals"] = ch.choose("max_literals", [10, 0, 1])
        if fw in ("attrs", "dataclasses"):
            kwargs["meta"] = ch.flag("meta")
            kwargs["post_init_converters"] = ch.flag("post_init_converters")
    else:
        if fw in ("attrs", "dataclasses"):
            kwargs["meta"] = True
    return {"k": (k1, k2, k3), "template": tname, "framework": fw, "layout": layout, "kwargs": kwargs,
            "samples": template(tname, k1, k2, k3)}


def build(prog, out, root_name="Root"):
    """-> (gen, reg, text) or None (failure recorded).  The nested layout is only attempted for tree-shaped graphs."""
    try:
        gen, reg, _ = pipeline.infer({root_name: copy.deepcopy(prog["samples"])})
    except Exception as e:
        out.fail("inference_raises", f"{type(e).__name__}: {e} for {prog['samples']}", f"inference_raises:{type(e).__name__}")
        return None
    if prog["layout"] == "nested" and not pipeline.is_tree(reg):
        return "skip"
    try:
        text = pipeline.emit(reg, prog["framework"], prog["layout"], **prog["kwargs"])
    except Exception as e:
        out.fail("emit_raises", f"[{prog['framework']}/{prog['layout']}] {type(e).__name__}: {e} for keys {prog['k']} template {prog['template']}",
                 f"emit_raises:{type(e).__name__}")
        return None
    return gen, reg, text
