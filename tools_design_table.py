#!/usr/bin/env python3
"""Regenerates section 10.7 of DESIGN.md (between the markers) from seeded/*/meta.json."""
import glob, json, re
BEGIN, END = "<!-- SEEDED-TABLE-BEGIN -->", "<!-- SEEDED-TABLE-END -->"
rows = []
metas = []
for d in sorted(glob.glob('/verif/seeded/C*-*'), key=lambda x: (x.split('/')[-1].split('-')[0], int(x.split('-')[-1]))):
    m = json.load(open(d + '/meta.json'))
    name = d.split('/')[-1]
    n = int(name.split('-')[1])
    rnd = "8" if n >= 13 else "1" if n <= 2 else ("2" if n <= 4 else ("3" if n <= 6 else ("4" if n <= 8 else ("7" if n >= 11 else "5" if name.split('-')[0] in ("C01", "C03", "C04", "C05", "C07", "C08", "C10", "C12", "C14", "C18") else "6"))))
    summ = (m.get('summary') or '').replace('\n', ' ').replace('|', '/')[:140]
    det = m.get('detected_by_quick') or {}
    fv = m.get('first_violation') or {}
    first = next(iter(fv.values()), '')
    kind = first.replace('detail:', '').strip().split(':')[0][:44].replace('|', '/')
    caught = ', '.join(k for k, v in det.items() if v == 'VIOLATION') or ('not reported (outside the property as stated, see meta.json)' if m.get('verdict_note') else 'NOT CAUGHT')
    if m.get('neutralised_by_fix'):
        caught += ' (since then neutralised by fix ' + m['neutralised_by_fix'].split(' ')[0] + ': no longer a breaking change on HEAD)'
    rows.append(f"| {name} | {rnd} | {summ} | {caught} | {kind} |")
    metas.append((name, caught))
table = "\n".join([BEGIN,
                   f"{len(rows)} seeded changes; {sum(1 for _, c in metas if not c.lower().startswith('not'))} reported as `VIOLATION` (exit 1, counterexample replayed natively) by the quick check of their property (C03-9: of C15) on a scratch worktree of /repo HEAD at the time; two of them (C03-1, C10-1) stopped being breaking changes when a later `fix:` commit removed the weakness they used.",
                   "", "| change | round | what it does | caught by (quick) | first violation kind |", "|---|---|---|---|---|"] + rows + [END])
p = '/verif/DESIGN.md'
s = open(p).read()
if BEGIN in s:
    s = s[:s.index(BEGIN)] + table + s[s.index(END) + len(END):]
else:
    a = s.index("| change | what it does | caught by | first violation |")
    b = s.index("Cross-property detections observed while building")
    s = s[:a] + table + "\n\n" + s[b:]
open(p, 'w').write(s)
print(len(rows), "rows")
