"""Choice points backed by the solver (CrossHair state space) and their replay twin.

A *scenario* is a plain function `scenario(ch, params) -> Outcome` that runs the real code of /repo and asks
`ch` whenever the environment must answer.  Under CrossHair `ch` is a `Chooser`: every answer is a fresh solver
variable, the engine forks on it and explores every other feasible answer on later paths, and reports
"Confirmed over all paths" only when the tree of answers is exhausted.  In a replay `ch` is a `ReplayChooser`
that returns the recorded answers, so the very same scenario code re-runs in a plain interpreter.

  * `pick(name, n)` / `flag(name)` / `choose(name, options)`: concrete answer chosen by the solver (CH-E);
  * `sym_int` / `sym_bool` / `sym_float`: *symbolic* values that flow through traced real code (CH-P);
    they are only realised (`finalize`) when a counterexample has to be written down;
  * `traced()`: context in which the real code runs on CrossHair proxies (no-op in replay).
"""
import contextlib
import json
import os

SHARD = int(os.environ.get("VF_SHARD", "0"))
NSHARDS = int(os.environ.get("VF_NSHARDS", "1"))


class Outcome:
    """Result of one path: failures (list of dict(kind, detail, fingerprint)), number of oracle checks made."""

    def __init__(self):
        self.failures = []
        self.checked = 0
        self.info = {}

    def fail(self, kind, detail, fingerprint=None):
        self.failures.append({"kind": kind, "detail": str(detail)[:2000], "fingerprint": fingerprint or kind})

    def check(self, cond, kind, detail="", fingerprint=None):
        self.checked += 1
        if not cond:
            self.fail(kind, detail() if callable(detail) else detail, fingerprint)
        return cond


class ReplayChooser:
    """Feeds a recorded trace back into a scenario (plain Python, no CrossHair)."""
    symbolic = False

    def __init__(self, trace):
        self._it = iter(trace)
        self.trace = []

    def _next(self, name):
        try:
            n, v = next(self._it)
        except StopIteration:
            raise ReplayMismatch(f"trace exhausted at {name}")
        if n != name:
            raise ReplayMismatch(f"trace has {n}, scenario asked {name}")
        self.trace.append([n, v])
        return v

    def pick(self, name, n, shard=False):
        if n <= 1:
            self._next(name)
            return 0
        return int(self._next(name))

    def flag(self, name):
        return bool(self._next(name))

    def choose(self, name, options, shard=False):
        return options[self.pick(name, len(options))]

    def sym_int(self, name, lo=None, hi=None):
        return int(self._next(name))

    def sym_bool(self, name):
        return bool(self._next(name))

    def sym_float(self, name):
        v = self._next(name)
        return float(v)

    def sym_str(self, name, maxlen, maxcp=0x10FFFF):
        return str(self._next(name))

    def traced(self):
        return contextlib.nullcontext()

    def realize(self, x):
        return x

    def finalize(self):
        return self.trace


class ReplayMismatch(Exception):
    pass


def make_chooser():
    """Chooser bound to the current CrossHair state space (imported lazily: replay never imports CrossHair)."""
    import z3
    from crosshair.core import deep_realize, realize
    from crosshair.libimpl.builtinslib import RealBasedSymbolicFloat, SymbolicBool, SymbolicInt
    from crosshair.statespace import context_statespace
    from crosshair.tracers import NoTracing, ResumedTracing
    from crosshair.util import IgnoreAttempt

    class Chooser:
        symbolic = True

        def __init__(self):
            self.space = context_statespace()
            self.trace = []
            self._syms = {}
            self.n = 0
            self.sharded = False

        def _name(self, name):
            self.n += 1
            return f"{name}#{self.n}"

        def sym_int(self, name, lo=None, hi=None):
            with NoTracing():
                v = SymbolicInt(self._name(name))
                if lo is not None:
                    self.space.add(v.var >= lo)
                if hi is not None:
                    self.space.add(v.var < hi)
                self._syms[len(self.trace)] = v
                self.trace.append([name, None])
                return v

        def sym_bool(self, name):
            with NoTracing():
                v = SymbolicBool(self._name(name))
                self._syms[len(self.trace)] = v
                self.trace.append([name, None])
                return v

        def sym_float(self, name):
            with NoTracing():
                # finite reals stand in for JSON numbers (JSON has no NaN/inf): exact IEEE symbols make z3 time out
                # on int==float comparisons.  CrossHair caps results at UNKNOWN for real-based floats because float
                # *arithmetic* would be approximated; our leaves are only compared/inspected, so the cap is lifted
                # here (any float arithmetic in the code under test re-instates it).
                cap = self.space.status_cap
                v = RealBasedSymbolicFloat(self._name(name), float)
                self.space.status_cap = cap
                self._syms[len(self.trace)] = v
                self.trace.append([name, None])
                return v

        def sym_str(self, name, maxlen, maxcp=0x10FFFF):
            """symbolic string (CrossHair's lazily generated code points) of length <= maxlen, code points <= maxcp"""
            with NoTracing():
                from crosshair.libimpl.builtinslib import LazyIntSymbolicStr, SymbolicBoundedIntTuple
                v = LazyIntSymbolicStr(SymbolicBoundedIntTuple([(0, maxcp)], self._name(name)))
                self.space.add(v._codepoints._len.var <= maxlen)
                self._syms[len(self.trace)] = v
                self.trace.append([name, None])
                return v

        def pick(self, name, n, shard=False):
            with NoTracing():
                if n <= 1:
                    self.trace.append([name, 0])
                    return 0
                v = SymbolicInt(self._name(name))
                self.space.add(z3.And(v.var >= 0, v.var < n))
                if shard and not self.sharded and NSHARDS > 1:
                    self.sharded = True
                    if n < NSHARDS:
                        raise RuntimeError(f"sharded pick {name} has {n} values < {NSHARDS} shards")
                    self.space.add(v.var % NSHARDS == SHARD % NSHARDS)
                val = int(realize(v))
                self.trace.append([name, val])
                return val

        def flag(self, name):
            with NoTracing():
                v = SymbolicBool(self._name(name))
                val = bool(realize(v))
                self.trace.append([name, val])
                return val

        def choose(self, name, options, shard=False):
            return options[self.pick(name, len(options), shard=shard)]

        def traced(self):
            return ResumedTracing()

        def realize(self, x):
            with NoTracing():
                return deep_realize(x)

        def finalize(self):
            """Realise every still-symbolic value so that the trace is a concrete replay recipe."""
            with NoTracing():
                for i, v in self._syms.items():
                    r = realize(v)
                    if isinstance(r, float) and r != r:
                        r = "nan"
                    elif isinstance(r, float) and r in (float("inf"), float("-inf")):
                        r = "inf" if r > 0 else "-inf"
                    self.trace[i][1] = r
            return self.trace

    return Chooser()
