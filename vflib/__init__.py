"""Solver-based checking machinery for json2python-models (see /verif/DESIGN.md)."""
