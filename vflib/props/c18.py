"""C18 — generated attrs/dataclass models construct from their samples and convert (CH-E over nesting-path genomes)."""
import copy
import itertools

from vflib.parts import CH

ATOMS = {
    "int": ("12", "-7"), "float": ("1.5", "2e3"), "bool": ("true", "False"),
    "date": ("2020-01-02", "2021-12-31"), "time": ("11:22:33", "01:02:03.000004"), "datetime": ("2020-01-02T11:22:33", "2021-12-31T01:02:03+01:00"),
}


def paths(maxdepth):
    out = [()]
    for d in range(1, maxdepth + 1):
        for p in itertools.product("OLD", repeat=d):
            if all(not (a == "O" and b == "O") for a, b in zip(p, p[1:])):
                out.append(p)
    return out


def build(path, atoms, null_inside=True):
    """value of type path.S; returns (value, uses_null)"""
    if not path:
        return atoms[0]
    t, rest = path[0], path[1:]
    if t == "L":
        if rest and rest[0] == "O":
            return [build(rest[1:], atoms), None, build(rest[1:], atoms[::-1])]
        return [build(rest, atoms), build(rest, atoms[::-1])]
    if t == "D":
        if rest and rest[0] == "O":
            return {"k1": build(rest[1:], atoms), "k2": None}
        return {"k1": build(rest, atoms), "k2": build(rest, atoms[::-1])}
    raise ValueError("O handled by the caller")


def convert_expected(v, T):
    if v is None:
        return None
    if isinstance(v, str):
        return T.to_internal_value(v)
    if isinstance(v, list):
        return [convert_expected(x, T) for x in v]
    if isinstance(v, dict):
        return {k: convert_expected(x, T) for k, x in v.items()}
    return v


def same(a, b, T):
    if isinstance(a, list) and isinstance(b, list):
        return len(a) == len(b) and all(same(x, y, T) for x, y in zip(a, b))
    if isinstance(a, dict) and isinstance(b, dict):
        return a.keys() == b.keys() and all(same(a[k], b[k], T) for k in a)
    if a is None or b is None:
        return a is None and b is None
    return type(a) is type(b) and a == b


def scen_convert(ch, params, out):
    import json_to_models.dynamic_typing as dt
    from json_to_models.dynamic_typing import StringSerializableRegistry, register_datetime_classes
    from vflib import pipeline
    P = paths(params.get("depth", 3))
    atoms_all = params.get("atoms", list(ATOMS))
    path, atom = ch.choose("path,atom", [(p, a) for p in P for a in atoms_all], shard=True)
    fw = ch.choose("framework", ["attrs", "dataclasses"])
    conv = ch.flag("post_init_converters")
    top_optional = path[:1] == ("O",)
    null_form = ch.choose("optional_realised_by", ["missing", "null"]) if top_optional else "n/a"
    inner = path[1:] if top_optional else path
    T = {"int": dt.IntString, "float": dt.FloatString, "bool": dt.BooleanString, "date": dt.IsoDateString, "time": dt.IsoTimeString,
         "datetime": dt.IsoDatetimeString}[atom]
    val = build(inner, ATOMS[atom])
    # siblings: plain values, a float-string list sharing a literal with the target (for int atoms), and a key equal to the class name
    shared_literal = ATOMS[atom][0] if atom == "int" else "12"
    n_extra = ch.choose("extra_int_string_fields", params.get("extra_fields", [0, 5, 6, 14]))
    # the JSON key of the inspected field: plain, or one that some framework has to rename (argument name of the generated __init__, keyword, digit first, hyphen)
    TK = ch.choose("target_key", params.get("target_keys", ["target", "self", "class", "1st", "tar-get", "cls"]))
    s1 = {"mixed": 1, "plain": "some text", "num": 3, "empty": [], "nul": None, TK: val, "floats": [shared_literal, "2.5"], "Root": "77"}
    s2 = {"mixed": [1.5], "plain": "other text", "num": 4, "empty": [], "nul": None, "floats": ["0.5", shared_literal], "Root": "78"}
    for e in range(n_extra):
        s1[f"extra{e}"] = str(100 + e)
        s2[f"extra{e}"] = str(200 + e)
    if not top_optional:
        s2[TK] = build(inner, ATOMS[atom][::-1])
    elif null_form == "null":
        s2[TK] = None
    # a second class with a field of the same name and path but another pseudo-type (state keyed by the field path would leak)
    other_T, other_str = (dt.FloatString, "1.5") if atom != "float" else (dt.IntString, "12")
    child_val = build(inner, (other_str, other_str))
    s1["child"] = {"target": child_val, "cx": 1}
    s2["child"] = {"target": child_val, "cx": 2}
    samples = [s1, s2]
    reg_s = StringSerializableRegistry()
    reg_s.add(cls=dt.IntString)
    reg_s.add(replace_types=(dt.IntString,), cls=dt.FloatString)
    reg_s.add(cls=dt.BooleanString)
    register_datetime_classes(reg_s)
    out.info = {"path": "".join(path) + "S", "atom": atom, "framework": fw, "target_key": TK, "converters": conv, "optional_by": null_form}
    ctx = lambda: f"path={''.join(path)}.S key={TK!r} atom={atom} {fw} converters={conv} optional_by={null_form}"
    try:
        gen, reg, _ = pipeline.infer({"Root": copy.deepcopy(samples)}, str_registry=reg_s, dkf=[TK] if inner[:1] == ("D",) else None,
                                     dkr=[r"k\d"] if "D" in inner else None, merge=[__import__("json_to_models.registry", fromlist=["x"]).ModelFieldsEquals()])
    except Exception as e:
        out.fail("inference_raises", f"{type(e).__name__}: {e} ({ctx()})", f"inference_raises:{type(e).__name__}")
        return
    try:
        text = pipeline.emit(reg, fw, "flat", post_init_converters=conv, meta=True)
    except Exception as e:
        out.fail("generation_raises", f"{type(e).__name__}: {e} ({ctx()})", f"generation_raises:{type(e).__name__}")
        return
    try:
        ld = pipeline.load_module(text)
    except Exception as e:
        out.fail("module_does_not_load", f"{type(e).__name__}: {e} ({ctx()})\n{text}", f"module_does_not_load:{type(e).__name__}")
        return
    try:
        root = ld.classes["Root"]
        table = pipeline.field_table(ld, root, fw)
        name_of = {(rec["key"] if rec["key"] is not None else f): f for f, rec in table.items()}      # JSON key -> python field name
        if not out.check(TK in name_of, "target_field_missing", lambda: f"no field carries the key {TK!r}: {sorted(name_of)} ({ctx()})\n{text}", "target_field_missing"):
            return
        ann = pipeline.resolve_annotation(pipeline.own_annotations(root)[name_of[TK]], ld, root)
        for si, s in enumerate(samples):
            try:
                obj = root(**{name_of.get(k, k): v for k, v in copy.deepcopy(s).items()})
            except Exception as e:
                known_attrs = fw == "attrs" and not conv and atom in ("bool", "date", "time", "datetime") and not inner
                out.fail("construction_raises", f"sample {si} {s}: {type(e).__name__}: {e} ({ctx()}) annotation {ann}\n{text}",
                         "construction_raises:attrs_field_converter_on_bool_or_date" if known_attrs else f"construction_raises:{type(e).__name__}")
                continue
            out.checked += 1
            got = getattr(obj, name_of[TK])
            if TK in s:
                orig = s[TK]
            else:       # key absent: the field takes its default (empty list / dict for optional containers, else None)
                orig = [] if inner[:1] == ("L",) else ({} if inner[:1] == ("D",) else None)
            if si == 0 and "Child" in ld.classes:
                try:
                    cobj = ld.classes["Child"](**copy.deepcopy(s["child"]))
                    if conv:
                        cwant = convert_expected(s["child"]["target"], other_T)
                        out.check(same(cobj.target, cwant, other_T), "converted_value_wrong",
                                  lambda: f"Child.target holds {cobj.target!r}, expected {cwant!r} ({ctx()})\n{text}", "converted_value_wrong:second_class")
                except Exception as e:
                    if not (fw == "attrs" and not conv):
                        out.fail("construction_raises", f"Child from {s['child']}: {type(e).__name__}: {e} ({ctx()})\n{text}",
                                 f"construction_raises:second_class:{type(e).__name__}")
            if conv:
                fl = getattr(obj, name_of.get("floats", "floats"))
                wantf = [dt.FloatString.to_internal_value(x) for x in s["floats"]]
                out.check(same(fl, wantf, dt.FloatString), "converted_value_wrong",
                          lambda: f"sample {si}: floats holds {fl!r} ({[type(x).__name__ for x in fl]}), expected FloatString values {wantf!r} ({ctx()})", "converted_value_wrong:sibling_list")
                rv = getattr(obj, name_of.get("Root", "Root"))
                out.check(type(rv) is dt.IntString and rv == int(s["Root"]), "converted_value_wrong",
                          lambda: f"sample {si}: field for key 'Root' holds {rv!r} of {type(rv).__name__} ({ctx()})\n{text}", "converted_value_wrong:key_named_like_class")
            if conv:
                for e in range(n_extra):
                    ev = getattr(obj, f"extra{e}")
                    out.check(type(ev) is dt.IntString and ev == int(s[f"extra{e}"]), "converted_value_wrong",
                              lambda: f"sample {si}: extra{e} holds {ev!r} of {type(ev).__name__} with {n_extra} extra fields ({ctx()})", "converted_value_wrong:extra_field")
            for other in ("plain", "num", "empty", "nul"):
                out.check(getattr(obj, other) == s[other] and type(getattr(obj, other)) is type(s[other]), "other_field_touched",
                          lambda: f"{other}: {getattr(obj, other)!r} vs {s[other]!r} ({ctx()})", "other_field_touched")
            if conv:
                want = convert_expected(orig, T)
                out.check(same(got, want, T), "converted_value_wrong",
                          lambda: f"sample {si}: target holds {got!r}, expected {want!r} (parsing {orig!r} as {T.__name__}) ({ctx()}) annotation {ann}\n{text}",
                          "converted_value_wrong")
            elif fw == "attrs" and atom in ("int", "float") and not inner:
                want = convert_expected(orig, T)
                out.check(same(got, want, T), "attrs_field_converter_wrong", lambda: f"sample {si}: {got!r} expected {want!r} ({ctx()})\n{text}",
                          "attrs_field_converter_wrong")
            else:
                out.check(got == orig, "value_changed_without_converters", lambda: f"sample {si}: {got!r} vs {orig!r} ({ctx()})", "value_changed_without_converters")
    finally:
        ld.close()


def parts(tier):
    if tier == "quick":
        return [CH("paths2", "vflib.props.c18:scen_convert", {"depth": 2, "atoms": ["int", "float", "bool", "date", "datetime"]}, shards=16, timeout=170, path_timeout=30),
                CH("paths3_int", "vflib.props.c18:scen_convert", {"depth": 3, "atoms": ["int", "time"]}, shards=16, timeout=170, path_timeout=30)]
    return [CH("paths3", "vflib.props.c18:scen_convert", {"depth": 3}, shards=16, timeout=150, path_timeout=30)]


META = {
    "level": "exploration", "mode": "CH-E",
    "explanation": "every nesting path over {Optional, List, Dict} within the depth bound x pseudo-type atom x framework x converters bit is generated, loaded, constructed from its own samples and inspected",
    "functions_encoded": ["get_string_field_paths", "convert_strings / post_init_converters / _process_string_field_value", "GenericModelCodeGenerator.decorators / string_field_paths",
                          "AttrsModelCodeGenerator.field_data / convert_strings_kwargs", "DataclassModelCodeGenerator.field_data / convert_strings_kwargs"],
    "symbolic_on_path": ["nesting path", "JSON key of the inspected field (plain / self / cls / class / digit-first / hyphenated)", "pseudo-type atom", "framework", "converters bit", "how a top-level Optional is realised (missing key / null)"],
    "bounds": {"quick": "paths of depth <=2 x 5 atoms and depth 3 x {int, time}; 2 frameworks x converters on/off", "thorough": "depth <=3 x 6 atoms"},
    "outside_claim": ["paths deeper than 3", "unions inside the path (documented as not convertible)"],
    "assumptions": ["Dict nestings are obtained with dict_keys_fields / a dict_keys_regex on k1,k2", "sibling fields: a union-typed field first, a plain string, an int, an empty list, a null, a List[FloatString] sharing a literal with the target, a key named like the class, 0/5/6/14 extra IntString fields"],
}
