"""C05 — models are merged exactly along the configured similarity relation.

  SMT-K : the three comparators + the ANY rule + the CLI threshold conversions, translated from the live source AST,
          against the integer/rational specification, IEEE-754 exact, for ALL key sets over a universe of K keys.
  CH-E  : closure to groups / merge / pointer retargeting under a table-driven comparator whose answers are solver bits,
          over tree-shaped model graphs; real comparators end-to-end on presence-bit key sets.
"""
import itertools
import random
from fractions import Fraction

from vflib.parts import CH, SMT


# ====================================================================================================== SMT-K
def _lambda_from_mapping(name):
    """AST of the converter lambda inside Cli.MODEL_CMP_MAPPING[name] (a convert_args closure)."""
    import ast
    import inspect
    from json_to_models.cli import Cli
    fn = Cli.MODEL_CMP_MAPPING[name]
    convs = [c.cell_contents for c in fn.__closure__ if isinstance(c.cell_contents, tuple)]
    conv = [x for t in convs for x in t if callable(x)][0]
    if conv is int:
        return int, None
    src = inspect.getsource(conv).strip().rstrip(",")
    tree = ast.parse("{" + src + "}", mode="eval")
    lam = [n for n in ast.walk(tree) if isinstance(n, ast.Lambda)][0]
    return conv, lam


def spec_py(kind, a, b, P=None, n=None):
    a, b = set(a), set(b)
    i, u = len(a & b), len(a | b)
    if kind == "equals":
        return a == b
    if kind == "percent":
        return Fraction(i, u) >= Fraction(P, 100)
    if kind == "number":
        return i >= n
    raise ValueError(kind)


def real_py(kind, a, b, P=None, n=None, via_cli=True):
    from json_to_models.cli import Cli
    from json_to_models.registry import ModelFieldsEquals, ModelFieldsNumberMatch, ModelFieldsPercentMatch, ModelRegistry
    if kind == "equals":
        return bool(ModelFieldsEquals().cmp(set(a), set(b)))
    if kind == "percent":
        c = Cli.MODEL_CMP_MAPPING["percent"](str(P)) if P is not None else ModelFieldsPercentMatch()
        return bool(c.cmp(set(a), set(b)))
    if kind == "number":
        c = Cli.MODEL_CMP_MAPPING["number"](str(n)) if n is not None else ModelFieldsNumberMatch()
        return bool(c.cmp(set(a), set(b)))
    raise ValueError(kind)


def replay_cmp(case):
    """plain-Python replay of a solver counterexample against the real comparator classes (through the CLI mapping)."""
    kind = case["kind"]
    a, b = case["a"], case["b"]
    if kind == "any":
        from json_to_models.cli import Cli
        from json_to_models.registry import ModelRegistry

        class M:
            def __init__(self, keys):
                self.type = {k: int for k in keys}
        cmps = [Cli.MODEL_CMP_MAPPING["percent"](str(case["P"])), Cli.MODEL_CMP_MAPPING["number"](str(case["n"]))]
        real = bool(ModelRegistry(*cmps)._models_cmp_fn(M(a), M(b)))
        spec = spec_py("percent", a, b, P=case["P"]) or spec_py("number", a, b, n=case["n"])
    else:
        P = case.get("P")
        n = case.get("n")
        if case.get("default"):
            real = real_py(kind, a, b)
            spec = spec_py(kind, a, b, P=70, n=10)
        else:
            real = real_py(kind, a, b, P=P, n=n)
            spec = spec_py(kind, a, b, P=P, n=n)
    if real != spec:
        return f"comparator {kind} on a={sorted(a)} b={sorted(b)} P={case.get('P')} n={case.get('n')}: real code says {real}, specification says {spec}"
    return None


def kernel_comparators(tier, seed, params):
    import z3
    from json_to_models.registry import ModelFieldsEquals, ModelFieldsNumberMatch, ModelFieldsPercentMatch, ModelRegistry
    from vflib import py2smt
    from vflib.py2smt import IntBV, SetBV, Translator, Untranslatable

    K = params.get("K", 16)
    W = params.get("W", 8)
    tmo = params.get("timeout", 100)
    res = {"obligations": 0, "discharged": 0, "queries": [], "counterexamples": [], "inconclusive": [], "errors": [],
           "functions_encoded": ["ModelFieldsEquals.cmp", "ModelFieldsPercentMatch.cmp", "ModelFieldsNumberMatch.cmp",
                                 "ModelRegistry._models_cmp_fn", "Cli.MODEL_CMP_MAPPING['percent'] lambda", "ModelRegistry.DEFAULT_MODELS_CMP"],
           "bounds": {"universe_keys": K, "len_width_bits": W, "percent": "integer 0..100", "number": f"0..{K + 1}"},
           "samples": [], "solver_time_s": 0.0, "validation": {}}
    a, b = z3.BitVec("a", K), z3.BitVec("b", K)
    pre = [a != 0, b != 0]
    P = z3.BitVec("P", W)          # percent as an integer string "P"
    n = z3.Int("n")
    i16 = z3.ZeroExt(16 - W, py2smt.popcount(a & b, W))
    u16 = z3.ZeroExt(16 - W, py2smt.popcount(a | b, W))
    P16 = z3.ZeroExt(16 - W, P)
    spec = {
        "equals": a == b,
        "percent": z3.UGE(100 * i16, P16 * u16),
        "percent_default": z3.UGE(100 * i16, 70 * u16),
        "number": z3.BV2Int(i16) >= n,
        "number_default": z3.BV2Int(i16) >= 10,
    }
    impl = {}
    try:
        T = Translator(lenwidth=W)
        impl["equals"] = py2smt.to_bool(T.call_function(ModelFieldsEquals.cmp, [ModelFieldsEquals(), SetBV(a), SetBV(b)]))
        conv, lam = _lambda_from_mapping("percent")
        if lam is None:
            raise Untranslatable("percent converter is not a lambda")
        pf = T.ev(lam.body, {lam.args.args[0].arg: IntBV(P), "float": None})
        inst = ModelFieldsPercentMatch.__new__(ModelFieldsPercentMatch)
        Ti = Translator(lenwidth=W)
        Ti.call_function(ModelFieldsPercentMatch.__init__, [inst, pf])       # what the constructor stores for this threshold
        inst.percent_fields = Ti.last_env["self.percent_fields"]
        impl["percent"] = py2smt.to_bool(T.call_function(ModelFieldsPercentMatch.cmp, [inst, SetBV(a), SetBV(b)]))
        dflt = ModelFieldsPercentMatch()
        impl["percent_default"] = py2smt.to_bool(T.call_function(ModelFieldsPercentMatch.cmp, [dflt, SetBV(a), SetBV(b)]))
        convn, lamn = _lambda_from_mapping("number")
        if convn is not int:
            raise Untranslatable("number converter is not int")
        instn = ModelFieldsNumberMatch.__new__(ModelFieldsNumberMatch)
        Tn = Translator(lenwidth=W)
        Tn.call_function(ModelFieldsNumberMatch.__init__, [instn, n])
        instn.number_fields = Tn.last_env["self.number_fields"]
        impl["number"] = py2smt.to_bool(T.call_function(ModelFieldsNumberMatch.cmp, [instn, SetBV(a), SetBV(b)]))
        impl["number_default"] = py2smt.to_bool(T.call_function(ModelFieldsNumberMatch.cmp, [ModelFieldsNumberMatch(), SetBV(a), SetBV(b)]))
        # ANY rule of the registry
        reg = ModelRegistry(inst, instn)
        impl["any"] = py2smt.to_bool(T.call_function(
            ModelRegistry._models_cmp_fn, [reg, "model_a", "model_b"],
            extra_env={"set(model_a.type.keys())": SetBV(a), "set(model_b.type.keys())": SetBV(b)}))
        spec["any"] = z3.Or(spec["percent"], spec["number"])
        # the ANY rule with a single comparator must be that comparator (no shortcut may add pairs)
        for nm, c in (("any_only_number", instn), ("any_only_percent", inst), ("any_only_equals", ModelFieldsEquals())):
            impl[nm] = py2smt.to_bool(T.call_function(
                ModelRegistry._models_cmp_fn, [ModelRegistry(c), "model_a", "model_b"],
                extra_env={"set(model_a.type.keys())": SetBV(a), "set(model_b.type.keys())": SetBV(b)}))
            spec[nm] = spec[nm.replace("any_only_", "")]
        dreg = ModelRegistry()
        impl["any_default"] = py2smt.to_bool(T.call_function(
            ModelRegistry._models_cmp_fn, [dreg, "model_a", "model_b"],
            extra_env={"set(model_a.type.keys())": SetBV(a), "set(model_b.type.keys())": SetBV(b)}))
        spec["any_default"] = z3.Or(spec["percent_default"], spec["number_default"])
    except Untranslatable as e:
        res["inconclusive"].append(f"translator refused the current source: {e}")
        res["obligations"] = 1
        return res

    bounds = [z3.ULE(P, 100), n >= 0, n <= K + 1]

    # ---- cardinality abstraction.  The translated comparators mention a, b only through popcount(a&b), popcount(a|b).
    # Those two terms are replaced by fresh variables i, u constrained to exactly the image of (a, b != {}):
    #   0 <= i <= u <= K, u >= 1, (i == 0 -> u >= 2).   This is an equivalence, not an over-approximation; it is applied only
    # when the substituted formula no longer mentions a or b (otherwise the full bit-vector query is used).
    iv, uv = z3.BitVec("i", W), z3.BitVec("u", W)
    pc_i, pc_u = py2smt.popcount(a & b, W), py2smt.popcount(a | b, W)
    image = [z3.ULE(iv, uv), z3.ULE(uv, K), z3.UGE(uv, 1), z3.Implies(iv == 0, z3.UGE(uv, 2))]

    def mentions_ab(e):
        seen, work = set(), [e]
        while work:
            x = work.pop()
            if x.get_id() in seen:
                continue
            seen.add(x.get_id())
            if z3.is_const(x) and x.decl().name() in ("a", "b"):
                return True
            work.extend(x.children())
        return False

    def abstracted(e):
        e2 = z3.substitute(e, (pc_i, iv), (pc_u, uv))
        return None if mentions_ab(e2) else e2

    # ---- translator validation (Serval style): encoding vs real function on concrete points
    rnd = random.Random(seed)
    pts = []
    keys = [f"k{j}" for j in range(K)]
    for _ in range(params.get("validation_points", 200)):
        sa = [k for k in keys if rnd.random() < rnd.choice([0.2, 0.5, 0.8])] or [keys[0]]
        sb = [k for k in keys if rnd.random() < rnd.choice([0.2, 0.5, 0.8])] or [keys[1]]
        pts.append((sa, sb, rnd.randint(0, 100), rnd.randint(0, K + 1)))
    for (i_, u_) in [(1, 2), (7, 10), (2, 3), (1, 3), (3, 4), (5, 8), (8, 16)]:      # exact boundary points P/100 == i/u
        if u_ <= K and (100 * i_) % u_ == 0:
            pts.append((keys[:i_] + keys[i_:u_][:0], keys[:u_], (100 * i_) // u_, i_))
            pts.append((keys[:u_], keys[:i_], (100 * i_) // u_, i_ + 1))
    bad = 0

    def bvval(ks):
        return z3.BitVecVal(sum(1 << keys.index(k) for k in ks), K)
    for sa, sb, p_, n_ in pts:
        sub = [(a, bvval(sa)), (b, bvval(sb)), (P, z3.BitVecVal(p_, W)), (n, z3.IntVal(n_))]
        for kind in ("equals", "percent", "number"):
            enc = z3.is_true(z3.simplify(z3.substitute(impl[kind], *sub)))
            real = real_py(kind, sa, sb, P=p_, n=n_)
            if enc != real:
                bad += 1
                res["errors"].append(f"translator validation: {kind} on {sa},{sb},P={p_},n={n_}: encoding {enc} real {real}")
    res["validation"] = {"points": len(pts), "disagreements": bad}
    if bad:
        return res

    def _unused():
        pass

    def model_case(kind, m, default=False):
        av = m.eval(a, model_completion=True).as_long()
        bv = m.eval(b, model_completion=True).as_long()
        case = {"kind": kind.replace("_default", ""), "a": [keys[j] for j in range(K) if av >> j & 1],
                "b": [keys[j] for j in range(K) if bv >> j & 1], "default": default}
        if not default:
            case["P"] = m.eval(P, model_completion=True).as_long()
            case["n"] = m.eval(n, model_completion=True).as_long()
        return case

    for kind in params.get("kinds", ("equals", "percent", "percent_default", "number", "number_default", "any", "any_default")):
        res["obligations"] += 1
        goal = impl[kind] != spec[kind]
        ab = abstracted(goal) if kind != "equals" else None
        if ab is not None:
            q = py2smt.solve(image + bounds + [ab], timeout_s=tmo, name=kind, cross_check=params.get("cross_check", False))
            q["abstraction"] = "cardinalities"
            if q["result"] == "sat":      # rebuild concrete key sets from (i, u): a = first u keys, b = first i keys (or disjoint)
                m = q["model"]
                i_, u_ = m.eval(iv, model_completion=True).as_long(), m.eval(uv, model_completion=True).as_long()
                if i_ >= 1:
                    av, bv = (1 << u_) - 1, (1 << i_) - 1
                else:
                    av, bv = (1 << (u_ - 1)) - 1, 1 << (u_ - 1)
                s2 = z3.Solver()
                s2.add(a == av, b == bv, P == m.eval(P, model_completion=True), n == m.eval(n, model_completion=True))
                s2.check()
                q["model"] = s2.model()
        else:
            q = py2smt.solve(pre + bounds + [goal], timeout_s=tmo, name=kind, cross_check=params.get("cross_check", False))
            q["abstraction"] = "none (full bit-vector query)"
        res["solver_time_s"] += q["time_s"]
        rec = {"name": f"impl!=spec:{kind}", "result": q["result"], "time_s": q["time_s"], "engine": q["engine"],
               "abstraction": q.get("abstraction")}
        if "cvc5" in q:
            rec["cvc5"] = q["cvc5"]
            res["solver_time_s"] += q["cvc5"]["time_s"]
        res["queries"].append(rec)
        cv = q.get("cvc5", {}).get("result")
        if q["result"] == "unsat" and cv in (None, "unsat", "timeout", "unknown"):
            res["discharged"] += 1
        elif q["result"] == "unsat" and cv == "sat":
            res["inconclusive"].append(f"{kind}: z3 unsat but cvc5 sat")
        elif q["result"] == "sat":
            case = model_case(kind, q["model"], default=kind.endswith("_default"))
            res["counterexamples"].append({"replay": "vflib.props.c05:replay_cmp", "case": case,
                                           "what": f"{kind}: implementation and specification differ", "fingerprint": f"cmp:{kind}"})
        elif q["result"] == "unknown" and cv == "unsat":
            res["discharged"] += 1
        else:
            res["inconclusive"].append(f"{kind}: {q['result']} (cvc5: {cv})")
        # vacuity twin: without the negated property the constraints must be satisfiable
        ti = abstracted(impl[kind]) if kind != "equals" else None
        tpre = image if ti is not None else pre
        ti = ti if ti is not None else impl[kind]
        tw = py2smt.solve(tpre + bounds + [ti], timeout_s=60, name=kind + "_twin")
        tw2 = py2smt.solve(tpre + bounds + [z3.Not(ti)], timeout_s=60, name=kind + "_twin2")
        res["solver_time_s"] += tw["time_s"] + tw2["time_s"]
        res["queries"].append({"name": f"twin:{kind}", "result": tw["result"] + "/" + tw2["result"], "time_s": tw["time_s"] + tw2["time_s"],
                               "engine": tw["engine"]})
        if "unsat" in (tw["result"], tw2["result"]):      # a timeout of the witness query is not a vacuity finding
            res["errors"].append(f"vacuity twin of {kind}: comparator is constant ({tw['result']}/{tw2['result']})")
    res["samples"] = [{"obligation": "exists a,b!=0 over K keys, 0<=P<=100, 0<=n<=K+1 . impl(cmp)(a,b,P,n) != spec(a,b,P,n)  -> unsat required",
                       "spec": {"percent": "100*|a&b| >= P*|a|b|", "number": "|a&b| >= n", "equals": "a == b", "any": "percent or number",
                                "defaults": "P=70, n=10"}}]
    return res


def sensitive_percents():
    """integer percents P for which float(P)/100*100 is not exactly P (any re-scaling of the stored threshold rounds there), plus boundaries"""
    s_ = {p for p in range(0, 101) if (float(p) / 100) * 100 != p or int(float(p) / 100 * 100) != p}
    return sorted(s_ | {0, 1, 50, 70, 99, 100})


def kernel_percent_concrete(tier, seed, params):
    """the percent comparator as the CLI really constructs it (constructor executed, not translated) for concrete thresholds;
    cmp translated over symbolic key sets"""
    import z3
    from json_to_models.cli import Cli
    from json_to_models.registry import ModelFieldsPercentMatch
    from vflib import py2smt
    from vflib.py2smt import SetBV, Translator, Untranslatable
    K, W = params.get("K", 16), params.get("W", 8)
    Ps = list(range(0, 101)) if params.get("all") else sensitive_percents()
    res = {"obligations": 0, "discharged": 0, "queries": [], "counterexamples": [], "inconclusive": [], "errors": [],
           "functions_encoded": ["ModelFieldsPercentMatch.__init__ (executed)", "ModelFieldsPercentMatch.cmp (translated)", "Cli.MODEL_CMP_MAPPING['percent']"],
           "bounds": {"universe_keys": K, "percents": Ps}, "samples": [], "solver_time_s": 0.0}
    a, b = z3.BitVec("a", K), z3.BitVec("b", K)
    iv, uv = z3.BitVec("i", W), z3.BitVec("u", W)
    pc_i, pc_u = py2smt.popcount(a & b, W), py2smt.popcount(a | b, W)
    image = [z3.ULE(iv, uv), z3.ULE(uv, K), z3.UGE(uv, 1), z3.Implies(iv == 0, z3.UGE(uv, 2))]
    keys = [f"k{j}" for j in range(K)]
    for Pc in Ps:
        res["obligations"] += 1
        try:
            inst = Cli.MODEL_CMP_MAPPING["percent"](str(Pc))
            T = Translator(lenwidth=W)
            impl = py2smt.to_bool(T.call_function(type(inst).cmp, [inst, SetBV(a), SetBV(b)]))
        except Untranslatable as e:
            res["inconclusive"].append(f"P={Pc}: translator refused cmp: {e}")
            continue
        except Exception as e:
            res["inconclusive"].append(f"P={Pc}: constructor raised {type(e).__name__}: {e}")
            continue
        i16, u16 = z3.ZeroExt(16 - W, iv), z3.ZeroExt(16 - W, uv)
        spec = z3.UGE(100 * i16, Pc * u16)
        goal = z3.substitute(impl, (pc_i, iv), (pc_u, uv)) != spec
        q = py2smt.solve(image + [goal], timeout_s=params.get("timeout", 60), name=f"percent_{Pc}")
        res["solver_time_s"] += q["time_s"]
        res["queries"].append({"name": f"impl!=spec:percent_{Pc}", "result": q["result"], "time_s": q["time_s"], "engine": q["engine"]})
        if q["result"] == "unsat":
            res["discharged"] += 1
        elif q["result"] == "sat":
            m = q["model"]
            i_, u_ = m.eval(iv, model_completion=True).as_long(), m.eval(uv, model_completion=True).as_long()
            av, bv = ((1 << u_) - 1, (1 << i_) - 1) if i_ >= 1 else ((1 << (u_ - 1)) - 1, 1 << (u_ - 1))
            case = {"kind": "percent", "a": [keys[j] for j in range(K) if av >> j & 1], "b": [keys[j] for j in range(K) if bv >> j & 1], "P": Pc, "n": 0,
                    "default": False}
            res["counterexamples"].append({"replay": "vflib.props.c05:replay_cmp", "case": case, "what": f"percent_{Pc}: implementation and specification differ",
                                           "fingerprint": "cmp:percent"})
        else:
            res["inconclusive"].append(f"percent_{Pc}: {q['result']}")
    res["samples"] = [{"obligation": "for each listed P: exists key sets . cmp(constructed by the CLI for percent_P) != (100*|a&b| >= P*|a|b|)  -> unsat", "percents": Ps}]
    return res


# ====================================================================================================== CH-E
class UF:
    def __init__(self, n):
        self.p = list(range(n))

    def find(self, x):
        while self.p[x] != x:
            self.p[x] = self.p[self.p[x]]
            x = self.p[x]
        return x

    def union(self, a, b):
        self.p[self.find(a)] = self.find(b)


def walk_ptrs(t, acc):
    from json_to_models.dynamic_typing import BaseType, ModelPtr
    if isinstance(t, ModelPtr):
        acc.append(t)
        return
    if isinstance(t, BaseType):
        try:
            it = iter(t)
        except TypeError:
            return
        for x in it:
            walk_ptrs(x, acc)


def graph_consistency(reg, out, ctx):
    """every reference anywhere in the graph points to a registered model; back-references are consistent."""
    registered = {id(m) for m in reg.models}
    for m in reg.models:
        for k, ft in m.type.items():
            ptrs = []
            walk_ptrs(ft, ptrs)
            for p in ptrs:
                out.check(id(p.type) in registered, "dangling_reference",
                          lambda: f"field {m.index}.{k} points to unregistered model {p.type} ({ctx()})", "dangling_reference")
                out.check(p in p.type.pointers, "pointer_not_recorded",
                          lambda: f"pointer in {m.index}.{k} missing from {p.type}.pointers ({ctx()})", "pointer_not_recorded")
                out.check(p.parent is m, "pointer_parent_wrong",
                          lambda: f"pointer in field {m.index}.{k} has parent {p.parent} ({ctx()})", "pointer_parent_wrong")
        for p in m.pointers:
            out.check(p.type is m, "pointers_inconsistent", lambda: f"{m}.pointers holds a pointer to {p.type} ({ctx()})",
                      "pointers_inconsistent")
            out.check(p.parent is None or id(p.parent) in registered, "dangling_parent",
                      lambda: f"a pointer to {m} has unregistered parent {p.parent} ({ctx()})", "dangling_parent")
        for p in m.child_pointers:
            out.check(p.parent is m, "child_pointers_inconsistent",
                      lambda: f"{m}.child_pointers holds a pointer whose parent is {p.parent} ({ctx()})", "child_pointers_inconsistent")
            out.check(id(p.type) in registered, "dangling_child_target",
                      lambda: f"child pointer of {m} targets unregistered {p.type} ({ctx()})", "dangling_child_target")


def scen_table(ch, params, out):
    """n models in a tree under one root; the comparator answers from solver bits (one per unordered pair of models)."""
    from json_to_models.generator import MetadataGenerator
    from json_to_models.registry import ModelCmp, ModelRegistry
    n = params.get("models", 4)
    rounds = params.get("rounds", 1)
    # tree genome: parent of model i is root (-1) or an earlier model
    shapes = list(itertools.product(*[range(-1, i) for i in range(n)]))
    preset = None
    if params.get("flat_only"):
        # all models directly under the root: registration order = index order, and since the table is arbitrary this covers every
        # similarity graph on n models in every registration order; the sharded first pick is the answers for four pairs
        parents = tuple([-1] * n)
        preset = ch.choose("similar(0,1),(0,2),(0,3),(1,2)", list(itertools.product([False, True], repeat=4)), shard=True)
    else:
        parents = ch.choose("parents", shapes, shard=True)
    wrap = [ch.choose(f"wrap{i}", ["obj", "list"]) if params.get("wraps") else "obj" for i in range(n)]

    def build(i, tag):
        o = {f"id{tag}{i}": 1, f"p{tag}{i}": "x"}
        for j in range(n):
            if parents[j] == i:
                v = build(j, tag)
                o[f"m{j}"] = v if wrap[j] == "obj" else [v]
        return o

    def root_data(tag):
        r = {f"root{tag}": 1}
        for j in range(n):
            if parents[j] == -1:
                v = build(j, tag)
                r[f"m{j}"] = v if wrap[j] == "obj" else [v]
        return r

    bits = {}
    if preset is not None:
        for (x, y), v in zip([(0, 1), (0, 2), (0, 3), (1, 2)], preset):
            bits[tuple(sorted(((f"ida{x}",), (f"ida{y}",))))] = v

    def ident(fields):
        ids = [k for k in fields if k.startswith("id")]
        return tuple(sorted(ids))

    class TableCmp(ModelCmp):
        def cmp(self, fa, fb):
            ia, ib = ident(fa), ident(fb)
            if not ia or not ib:
                return False    # root models are never similar to anything
            # one solver bit per unordered pair of key sets (a merged model is identified by all its markers): the
            # comparator is an arbitrary symmetric relation, also on models produced by an earlier merge
            key = tuple(sorted((ia, ib)))
            if key not in bits:
                bits[key] = ch.flag(f"similar{key}")
            return bits[key]

    gen = MetadataGenerator()
    reg = ModelRegistry(TableCmp())
    originals = {}
    for r in range(rounds):
        tag = "abcdef"[r]
        reg.process_meta_data(gen.generate(root_data(tag)), model_name=f"Root{tag.upper()}")
        before = {m.index: (m, dict(m.type), set(m.type.keys())) for m in reg.models}
        try:
            replaces = reg.merge_models(gen)
        except Exception as e:
            out.fail("merge_raises", f"{type(e).__name__}: {e} parents={parents} table={bits}", f"merge_raises:{type(e).__name__}")
            return
        ctx = lambda: f"round {r} parents={parents} wrap={wrap} table={ {k: v for k, v in bits.items()} }"
        # independent closure: connected components of the table graph over the models present before this merge
        idx = list(before)
        uf = UF(len(idx))
        for x, y in itertools.combinations(range(len(idx)), 2):
            ia, ib = ident(before[idx[x]][2]), ident(before[idx[y]][2])
            if ia and ib and bits.get(tuple(sorted((ia, ib)))):
                uf.union(x, y)
        comps = {}
        for x in range(len(idx)):
            comps.setdefault(uf.find(x), []).append(idx[x])
        groups = [set(c) for c in comps.values() if len(c) > 1]
        singles = [c[0] for c in comps.values() if len(c) == 1]
        now = {m.index: m for m in reg.models}
        for s in singles:
            out.check(s in now and now[s] is before[s][0], "untouched_model_replaced", lambda: f"model {s} should be untouched ({ctx()})",
                      "untouched_model_replaced")
            if s in now:
                out.check(set(now[s].type.keys()) == before[s][2], "untouched_model_changed",
                          lambda: f"model {s} fields changed {before[s][2]} -> {set(now[s].type.keys())} ({ctx()})", "untouched_model_changed")
        merged_new = [m for i, m in now.items() if i not in before]
        out.check(len(merged_new) == len(groups), "wrong_number_of_merged_models",
                  lambda: f"expected {len(groups)} merged models for components {groups}, registry has {len(merged_new)} new ({ctx()})",
                  "wrong_number_of_merged_models")
        for g in groups:
            union_keys = set().union(*[before[i][2] for i in g])
            match = [m for m in merged_new if set(m.type.keys()) == union_keys]
            out.check(len(match) == 1, "merged_model_fields_not_union",
                      lambda: f"component {g}: no (single) new model with key union {sorted(union_keys)}; new models "
                              f"{[sorted(m.type.keys()) for m in merged_new]} ({ctx()})", "merged_model_fields_not_union")
            for i in g:
                out.check(i not in now, "merged_member_still_registered", lambda: f"model {i} of component {g} still registered ({ctx()})",
                          "merged_member_still_registered")
        rep = [(m, {x.index for x in grp}) for m, grp in replaces]
        out.check(sorted(map(sorted, [s for _, s in rep])) == sorted(map(sorted, groups)), "replacement_list_wrong",
                  lambda: f"merge_models returned groups {[sorted(s) for _, s in rep]}, expected {[sorted(g) for g in groups]} ({ctx()})",
                  "replacement_list_wrong")
        for m, s in rep:
            out.check(m.index in now and now[m.index] is m, "replacement_model_unregistered",
                      lambda: f"replacement list names model {m.index} which is not registered ({ctx()})", "replacement_model_unregistered")
        graph_consistency(reg, out, ctx)
        if out.failures:
            return
    out.info = {"parents": list(parents), "wrap": wrap, "table": {str(k): v for k, v in bits.items()}}
    try:
        reg.generate_names()
        from json_to_models.models.structure import compose_models_flat
        compose_models_flat(reg.models_map)
        out.checked += 1
    except Exception as e:
        out.fail("layout_after_merge_raises", f"{type(e).__name__}: {e} ({ctx()})", f"layout_after_merge_raises:{type(e).__name__}")


def scen_real(ch, params, out):
    """3 models over a 5-key universe (presence bits from the solver) with the real comparators, end to end."""
    from json_to_models.cli import Cli
    from json_to_models.generator import MetadataGenerator
    from json_to_models.registry import ModelRegistry
    U = ["k0", "k1", "k2", "k3", "k4"][:params.get("keys", 5)]
    pol = ch.choose("policy", params.get("policies", ["default", "exact", "percent_50", "percent_67", "percent_100", "number_1",
                                                     "number_2", "percent_50+number_2", "exact+number_2", "number_2+exact", "exact+percent_50"]), shard=True)
    keysets = []
    for i in range(3):
        ks = [k for k in U if ch.flag(f"m{i}.has({k})")]
        if not ks:
            return
        keysets.append(ks)
    cmps = []
    if pol != "default":
        for part in pol.split("+"):
            name, *args = part.split("_")
            cmps.append(Cli.MODEL_CMP_MAPPING[name](*args))
    data = {"rootmarker": 1}
    for i, ks in enumerate(keysets):
        data[f"f{i}"] = {k: 1 for k in ks}
    gen = MetadataGenerator()
    reg = ModelRegistry(*cmps)
    reg.process_meta_data(gen.generate(data), model_name="Root")
    try:
        reg.merge_models(gen)
    except Exception as e:
        out.fail("merge_raises", f"{type(e).__name__}: {e} for {keysets} under {pol}", f"merge_raises:{type(e).__name__}")
        return

    def similar(a, b):
        if pol == "default":
            return spec_py("percent", a, b, P=70) or spec_py("number", a, b, n=10)
        r = False
        for part in pol.split("+"):
            name, *args = part.split("_")
            if name == "exact":
                r = r or spec_py("equals", a, b)
            elif name == "percent":
                r = r or spec_py("percent", a, b, P=int(args[0]))
            else:
                r = r or spec_py("number", a, b, n=int(args[0]))
        return r
    allsets = [["rootmarker", "f0", "f1", "f2"]] + keysets
    uf = UF(4)
    for x, y in itertools.combinations(range(4), 2):
        if similar(allsets[x], allsets[y]):
            uf.union(x, y)
    comps = {}
    for x in range(4):
        comps.setdefault(uf.find(x), []).append(x)
    expected = sorted(sorted(set().union(*[set(allsets[x]) for x in c])) for c in comps.values())
    got = sorted(sorted(m.type.keys()) for m in reg.models)
    out.info = {"policy": pol, "keysets": keysets}
    out.check(got == expected, "merge_partition_wrong",
              lambda: f"policy {pol}, key sets {keysets}: registry has models {got}, similarity closure gives {expected}",
              f"merge_partition_wrong:{pol.split('_')[0]}")
    graph_consistency(reg, out, lambda: f"policy {pol} keysets {keysets}")


def scen_cli_roots(ch, params, out):
    """three `-m` root models through the real CLI: the classes printed must be the connected components of the similarity
    relation on the ORIGINAL key sets (comparing against already merged unions, or merging per root, changes the partition)"""
    import ast
    import json
    from vflib import clienv
    U = ["k0", "k1", "k2", "k3", "k4"][:params.get("keys", 4)]
    subsets = [[k for j, k in enumerate(U) if m >> j & 1] for m in range(1, 2 ** len(U))]
    pol, first = ch.choose("policy,root0_keys", [(p_, s_) for p_ in params.get("policies", ["number_2", "percent_50", "percent_70"]) for s_ in subsets], shard=True)
    sets = [first]
    for i in (1, 2):
        sets.append(ch.choose(f"root{i}_keys", subsets))
    order = ch.choose("argument_order", [[0, 1, 2], [2, 0, 1]])
    fs = {}
    argv = []
    for i in order:
        fs[f"/vfs/r{i}.json"] = json.dumps([{k: 1 for k in sets[i]}])
        argv += ["-m", f"Root{i}", f"/vfs/r{i}.json"]
    argv += ["--merge", pol]
    res = clienv.run_main(argv, fs)
    out.info = {"policy": pol, "sets": sets, "order": order}
    ctx = lambda: f"policy {pol}, root key sets {sets}, argument order {order}"
    if not out.check(res.status == 0, "cli_fails", lambda: f"{res.stderr[-300:]} ({ctx()})", "cli_fails"):
        return

    def similar(a, b):
        name, *args = pol.split("_")
        if name == "exact":
            return spec_py("equals", a, b)
        if name == "percent":
            return spec_py("percent", a, b, P=int(args[0]))
        return spec_py("number", a, b, n=int(args[0]))
    uf = UF(3)
    for x, y in itertools.combinations(range(3), 2):
        if similar(sets[x], sets[y]):
            uf.union(x, y)
    comps = {}
    for x in range(3):
        comps.setdefault(uf.find(x), []).append(x)
    expected = sorted(sorted(set().union(*[set(sets[x]) for x in c])) for c in comps.values())
    try:
        tree = ast.parse(res.stdout)
    except SyntaxError as e:
        out.fail("cli_output_not_python", str(e), "cli_output_not_python")
        return
    got = sorted(sorted(n.target.id for n in c.body if isinstance(n, ast.AnnAssign)) for c in tree.body if isinstance(c, ast.ClassDef))
    out.check(got == expected, "merge_partition_wrong",
              lambda: f"{ctx()}: the CLI printed classes with fields {got}; the similarity closure on the original key sets gives {expected}",
              f"merge_partition_wrong:cli:{pol.split('_')[0]}")


def parts(tier):
    if tier == "quick":
        return [
            SMT("cmp_equals_number", "vflib.props.c05:kernel_comparators", {"K": 16, "W": 8, "timeout": 120, "kinds": ["equals", "number", "number_default", "any_only_number", "any_only_equals"]}, timeout=400),
            SMT("cmp_percent", "vflib.props.c05:kernel_comparators", {"K": 16, "W": 8, "timeout": 150, "kinds": ["percent"]}, timeout=400),
            SMT("cmp_percent_default", "vflib.props.c05:kernel_comparators", {"K": 16, "W": 8, "timeout": 150, "kinds": ["percent_default", "any_default"]}, timeout=400),
            SMT("cmp_any", "vflib.props.c05:kernel_comparators", {"K": 16, "W": 8, "timeout": 150, "kinds": ["any", "any_only_percent"]}, timeout=400),
            SMT("cmp_percent_as_constructed", "vflib.props.c05:kernel_percent_concrete", {"K": 16, "W": 8, "timeout": 60}, timeout=400),
            CH("table4", "vflib.props.c05:scen_table", {"models": 4}, shards=12, timeout=170, path_timeout=30),
            CH("table2x2rounds", "vflib.props.c05:scen_table", {"models": 2, "rounds": 2, "wraps": True}, shards=2, timeout=170, path_timeout=30),
            CH("table5_flat", "vflib.props.c05:scen_table", {"models": 5, "flat_only": True}, shards=16, timeout=170, path_timeout=30),
            CH("real", "vflib.props.c05:scen_real", {"keys": 4, "policies": ["default", "percent_50", "number_2"]}, shards=3, timeout=280, path_timeout=30),
            CH("real3", "vflib.props.c05:scen_real", {"keys": 3}, shards=8, timeout=170, path_timeout=30),
            CH("cli_three_roots", "vflib.props.c05:scen_cli_roots", {"keys": 4}, shards=16, timeout=170, path_timeout=30),
        ]
    return [
        SMT("cmp_equals_number", "vflib.props.c05:kernel_comparators", {"K": 64, "W": 8, "timeout": 600, "cross_check": True, "kinds": ["equals", "number", "number_default", "any_only_number", "any_only_equals"]}, timeout=400),
        SMT("cmp_percent", "vflib.props.c05:kernel_comparators", {"K": 64, "W": 8, "timeout": 1500, "cross_check": True, "kinds": ["percent"]}, timeout=4000),
        SMT("cmp_percent_default", "vflib.props.c05:kernel_comparators", {"K": 64, "W": 8, "timeout": 1500, "cross_check": True, "kinds": ["percent_default", "any_default"]}, timeout=4000),
        SMT("cmp_any", "vflib.props.c05:kernel_comparators", {"K": 64, "W": 8, "timeout": 1500, "cross_check": True, "kinds": ["any", "any_only_percent"]}, timeout=6000),
        SMT("cmp_percent_as_constructed", "vflib.props.c05:kernel_percent_concrete", {"K": 64, "W": 8, "timeout": 120, "all": True}, timeout=6000),
        CH("table5", "vflib.props.c05:scen_table", {"models": 5, "wraps": False}, shards=16, timeout=150, path_timeout=30),
        CH("table4wraps", "vflib.props.c05:scen_table", {"models": 4, "wraps": True}, shards=16, timeout=150, path_timeout=30),
        CH("table6_flat", "vflib.props.c05:scen_table", {"models": 6, "flat_only": True}, shards=16, timeout=150, path_timeout=30),
        CH("table2x2rounds", "vflib.props.c05:scen_table", {"models": 2, "rounds": 2, "wraps": True}, shards=2, timeout=150, path_timeout=30),
        CH("table3x2rounds", "vflib.props.c05:scen_table", {"models": 3, "rounds": 2, "wraps": False}, shards=6, timeout=150, path_timeout=30),
        CH("real", "vflib.props.c05:scen_real", {"keys": 4}, shards=8, timeout=150, path_timeout=30),
    ]


META = {
    "level": "other",
    "technique": "SMT (z3 QF_BV+FP, cvc5 cross-check in thorough) on comparator kernels translated from the source AST against the rational specification; CrossHair-exhausted similarity tables on real merge_models",
    "mode": "SMT-K + CH-E",
    "explanation": "comparators: one unsat query per comparator covers all key-set pairs over K keys and all thresholds; closure/merge: every similarity table on n models x every tree shape is executed on the real registry and compared with an independent union-find",
    "functions_encoded": ["ModelFieldsEquals.cmp", "ModelFieldsPercentMatch.cmp", "ModelFieldsNumberMatch.cmp", "ModelRegistry._models_cmp_fn",
                          "Cli.MODEL_CMP_MAPPING converters", "ModelRegistry.merge_models/_merge/_register/_unregister", "ModelPtr.replace/replace_parent"],
    "symbolic_on_path": ["key sets a,b (bit-vectors)", "percent P, number n", "similarity bit per pair of models", "tree shape", "list/object wrapping", "presence bits of 5 keys x 3 models"],
    "bounds": {"quick": "K=16 keys, P in 0..100 (integer), n in 0..17; tables on 4 models x 24 tree shapes; 2 models x 2 rounds (merge, add data, merge again); real comparators on 3 models x 3 keys x 8 policies and x 4 keys x 3 policies",
               "thorough": "K=16 and 24 with cvc5 cross-check; tables on 5 models x 120 tree shapes; 4 models with list wrapping; 3 models x 2 rounds; real comparators on 3 models x 4 keys"},
    "outside_claim": ["non-integer percent strings (percent_33.3)", "key universes larger than K", "more than 5 models per table", "models with zero keys (division by zero in the percent comparator)"],
    "assumptions": ["models have at least one key", "the table comparator identifies a model by its marker keys and answers with one solver bit per unordered pair of marker sets (also for models produced by an earlier merge); root models are dissimilar to everything",
                    "spec for percent: 100*|a&b| >= P*|a|b| over the integers; default thresholds are 70% and 10 as documented"],
}
if isinstance(META.get("bounds"), dict) and "quick" in META["bounds"]:
    META["bounds"]["quick"] += '; all 1024 similarity tables on 5 models directly under the root; exact combined with number / percent in both orders'
