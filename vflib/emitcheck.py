"""Analysis of one emitted module against the registry it was rendered from (plain Python; used by C03/C04/C11/C12)."""
import ast
import keyword

from vflib import pipeline

KEY_POOL_QUICK = [
    "user_name", "userName", "user-name", "UserName", "address2line", "class", "from", "list", "id", "type",
    "Optional", "List", "Any", "field", "Field", "BaseModel", "dataclass", "attr", "имя", "größe",
    "first name", "data.value", "items", "json",
]
# keys with characters that are legal in JSON but special somewhere in Python text handling: Unicode line separators
# (str.splitlines / textwrap), NEL, a non-printable character next to an astral one, a leading symbol before a digit
KEY_POOL_ODD = ["line\u2028sep", "para\u2029sep", "nel\x85key", "tab\tastral\U0001F600", "#1st", "(2nd) place", "zero\u200bwidth", "family \U0001F468\u200d\U0001F469",
                # characters that need escaping inside a Python string literal (the original key is written into aliases / metadata)
                "dir\\bin", "C:\\temp", "opt\nname", "sq'key", 'dq"key', "trailing\\", "both'\"quotes"]
# keys whose first character is a symbol (JSON-LD "@context", JSON-Schema "$ref", XML-to-JSON "#text"), and names that are special as
# method parameters: the generated class name / __init__ signature is where they matter
KEY_POOL_PREFIXED = ["$ref", "@context", "#text", "#1st", "(2nd) place", "self", "cls", "%used", "<tag>", "~tilde",
                     # reserved only after the symbol is removed and the rest is capitalised
                     "$union", "$literal", "@baseModel", "#optional", "$list", "$field", "$none", "@true", "#false", "-none", "$pk", "pk#", "$id"]
KEY_POOL_FULL = KEY_POOL_QUICK + KEY_POOL_ODD + [
    "None", "True", "import", "lambda", "object", "str", "int", "dict", "set", "Union", "Dict", "Literal", "Tuple",
    "validator", "fields", "copy", "schema", "date", "datetime", "time", "naïve", "été", "αβγ",
    "x1y2", "HTTPResponse", "some_HTTP-code", "camelCaseKey2", "key with  spaces", "a/b", "children", "statuses", "SQLModel",
    "self", "cls", "property", "model", "registry", "$ref", "@context", "#text", "%used", "<tag>", "~tilde",
]


def reserved_variants():
    """case / style variants of names that are reserved somewhere (keywords, builtins, typing and framework names, BaseModel attributes):
    a sanitiser that checks the raw key, or checks before / after the wrong conversion step, shows up on exactly these"""
    import inflection
    bases = ["json", "copy", "validate", "parse_obj", "schema_json", "from_orm", "dict", "construct", "update_forward_refs", "config",
             "list", "field", "optional", "class", "none", "true", "any", "union", "base_model", "dataclass", "attr", "date", "datetime", "type", "id", "pk", "false", "self"]
    out = []
    for b in bases:
        for v in (b, b.upper(), b.capitalize(), inflection.camelize(b, False), inflection.camelize(b, True), b.replace("_", "-"), b + "s"):
            if v not in out:
                out.append(v)
    return out


KEY_POOL_RESERVED = reserved_variants()


def fold(key, convert_unicode=True):
    """case/punctuation folding of a JSON key (C11's documented domain: keys of one object are pairwise distinct after it)."""
    import re
    from unidecode import unidecode
    k = unidecode(key) if convert_unicode else key
    return re.sub(r"[\W_]", "", k).lower()


ONES = ['', 'one', 'two', 'three', 'four', 'five', 'six', 'seven', 'eight', 'nine']


def reserved_words(framework):
    """names a clean key cannot keep (documented: keywords, builtins, a few common names, names the module imports)."""
    import builtins
    r = set(keyword.kwlist) | set(dir(builtins)) | {"datetime", "time", "date", "defaultdict", "schema"}
    r |= {"field", "attr", "optional", "dataclass"}
    if framework in ("pydantic", "sqlmodel"):
        r |= {"construct", "copy", "dict", "json", "validate", "fields"}
    if framework == "attrs":
        r |= {"self"}       # attrs writes __init__(self, <fields>): the field cannot keep that name (fix 5570ffe)
    return r


def imported_names(tree):
    names = set()
    for node in tree.body:
        if isinstance(node, ast.Import):
            for a in node.names:
                names.add((a.asname or a.name).split(".")[0])
        elif isinstance(node, ast.ImportFrom):
            for a in node.names:
                names.add(a.asname or a.name)
    return names


def class_defs(tree):
    """[(qualified name, ClassDef, [enclosing names])] in source order."""
    out = []

    def walk(body, outer):
        for node in body:
            if isinstance(node, ast.ClassDef):
                out.append((".".join(outer + [node.name]), node, list(outer)))
                walk(node.body, outer + [node.name])
    walk(tree.body, [])
    return out


def annotated_names(cdef):
    return [n.target.id for n in cdef.body if isinstance(n, ast.AnnAssign) and isinstance(n.target, ast.Name)]


class Emitted:
    """text + ast + loaded module + per-class field tables of one emitted program."""

    def __init__(self, text, reg, framework, layout):
        self.text, self.reg, self.framework, self.layout = text, reg, framework, layout
        self.tree = ast.parse(text)
        self.imports = imported_names(self.tree)
        self.cdefs = class_defs(self.tree)
        self.ld = pipeline.load_module(text)
        self._tables = {}

    def close(self):
        self.ld.close()

    def table(self, cls):
        if cls not in self._tables:
            self._tables[cls] = pipeline.field_table(self.ld, cls, self.framework)
        return self._tables[cls]

    def class_for_model(self, model):
        cands = [c for q, c in self.ld.classes.items() if q.split(".")[-1] == model.name]
        return cands[0] if len(cands) == 1 else None


def check_loadable(text, reg, framework, layout, out, ctx, folded_equal=False):
    """C03 core: returns an Emitted (caller closes it) or None if a failure was recorded."""
    tag = f"{framework}/{layout}"
    try:
        tree = ast.parse(text)
    except SyntaxError as e:
        out.fail("module_syntax_error", f"[{tag}] {e} ({ctx()})\n{text}", f"module_does_not_load:SyntaxError")
        return None
    try:
        em = Emitted(text, reg, framework, layout)
    except Exception as e:
        out.fail("module_does_not_load", f"[{tag}] {type(e).__name__}: {e} ({ctx()})\n{text}",
                 f"module_does_not_load:{type(e).__name__}")
        return None
    out.checked += 1
    nmodels = len(list(reg.models))
    out.check(len(em.cdefs) == nmodels, "class_count",
              lambda: f"[{tag}] {len(em.cdefs)} class statements for {nmodels} inferred models ({ctx()})\n{text}", "class_count")
    quals = [q for q, _, _ in em.cdefs]
    out.check(len(set(quals)) == len(quals), "duplicate_class_name",
              lambda: f"[{tag}] duplicate class names {sorted(q for q in quals if quals.count(q) > 1)} ({ctx()})\n{text}", "duplicate_class_name")
    out.check(len(em.ld.classes) == len(quals), "class_lost_at_runtime",
              lambda: f"[{tag}] {len(quals)} class statements but {len(em.ld.classes)} live classes ({ctx()})", "class_lost_at_runtime")
    for q, cdef, outer in em.cdefs:
        simple = cdef.name
        out.check(simple.isidentifier() and not keyword.iskeyword(simple), "bad_class_name", lambda: f"[{tag}] class name {simple!r} ({ctx()})",
                  "bad_class_name")
        out.check(simple not in em.imports, "class_shadows_import",
                  lambda: f"[{tag}] class {simple} shadows an imported name ({ctx()})\n{text}", f"class_shadows_import:{simple}")
        names = annotated_names(cdef)
        out.check(len(set(names)) == len(names), "duplicate_field_name",
                  lambda: f"[{tag}] class {q}: duplicate fields {sorted(n for n in names if names.count(n) > 1)} ({ctx()})\n{text}",
                  "duplicate_field_name:folded_equal_keys" if folded_equal else "duplicate_field_name")
        nested = [n.name for n in cdef.body if isinstance(n, ast.ClassDef)]
        for n in names:
            out.check(n.isidentifier() and not keyword.iskeyword(n), "bad_field_name", lambda: f"[{tag}] field {q}.{n!r} ({ctx()})",
                      "bad_field_name")
            out.check(n not in em.imports, "field_shadows_import",
                      lambda: f"[{tag}] field {q}.{n} shadows an imported name ({ctx()})\n{text}", f"field_shadows_import:{n}")
            out.check(n not in nested, "field_shadows_nested_class",
                      lambda: f"[{tag}] field {q}.{n} has the name of a class nested in {q} ({ctx()})", "field_shadows_nested_class")
    # every annotation evaluates to a real type in its scope
    for q, cls in em.ld.classes.items():
        for fname, raw in pipeline.own_annotations(cls).items():
            try:
                t = pipeline.resolve_annotation(raw, em.ld, cls)
                ok = _no_forward_refs(t)
            except Exception as e:
                ok = False
                t = f"{type(e).__name__}: {e}"
            out.check(ok, "annotation_unresolvable", lambda: f"[{tag}] {q}.{fname}: {raw!r} -> {t} ({ctx()})\n{text}",
                      "annotation_unresolvable")
    return em


def _no_forward_refs(t):
    import typing
    if isinstance(t, (str, typing.ForwardRef)):
        return False
    return all(_no_forward_refs(a) for a in typing.get_args(t) if not isinstance(a, (str, int, bool, bytes)) or isinstance(a, typing.ForwardRef))
