"""Generic CrossHair harnesses.  The scenario to run is named by VF_SCENARIO=<module>:<function>.

`h`      : post: _        — the property assertion; must come back "Confirmed over all paths".
`h_twin` : post: not _    — reachability twin; must come back *refuted* (some path reaches the oracle and
                            passes at least one real check), otherwise the harness is vacuous.
"""
import importlib
import json
import os
import traceback
import uuid

from crosshair.tracers import NoTracing

from vflib.che import Outcome, make_chooser
from vflib import known

_mod, _fn = os.environ["VF_SCENARIO"].split(":")
SCENARIO = getattr(importlib.import_module(_mod), _fn)
PARAMS = json.loads(os.environ.get("VF_PARAMS", "{}"))
PROP = os.environ.get("VF_PROP", "C00")
LOG = os.environ.get("VF_PATHLOG")
CEXDIR = os.environ.get("VF_CEXDIR")
KNOWN = known.load()


def _reproduces_in_fresh_process(path):
    import subprocess
    try:
        p = subprocess.run(["/venv/bin/python", "-m", "vflib.replay", path], capture_output=True, text=True, timeout=300,
                           env=dict(os.environ), cwd=os.path.dirname(os.path.dirname(os.path.abspath(__file__))))
        return p.returncode == 1
    except Exception:
        return True     # cannot tell: keep it as a candidate, the runner replays it again


def _run(twin: bool) -> bool:
    ch = make_chooser()
    with NoTracing():
        out = Outcome()
        err = None
        try:
            SCENARIO(ch, PARAMS, out)
        except Exception as e:  # CrossHair steers with BaseException subclasses: those must propagate
            err = "".join(traceback.format_exception(type(e), e, e.__traceback__))[-3000:]
        unknown_fail, known_hits = known.split(PROP, out.failures, KNOWN)
        rec = {"trace": None, "checked": out.checked, "known": [k["id"] for k in known_hits],
               "fail": bool(unknown_fail) or bool(err), "info": out.info}
        if (unknown_fail or err) and not twin:
            trace = ch.finalize()
            rec["trace"] = trace
            if CEXDIR:
                path = os.path.join(CEXDIR, uuid.uuid4().hex + ".json")
                with open(path, "w") as f:
                    json.dump({"property": PROP, "scenario": os.environ["VF_SCENARIO"], "params": PARAMS,
                               "trace": trace, "failures": unknown_fail, "harness_exception": err}, f, default=str)
                if unknown_fail and not err and not _reproduces_in_fresh_process(path):
                    # the failure needs state that an EARLIER path left behind in this worker process; its own trace does not
                    # contain the cause, so it is not a counterexample.  Keep exploring: a path whose own history contains the
                    # cause will reproduce.  (Counted and reported as inconclusive if no such path turns up.)
                    os.rename(path, path + ".polluted")
                    rec["polluted"] = True
                    rec["fail"] = False
                    unknown_fail = []
        else:
            rec["trace"] = [t for t in ch.trace]
        if LOG and not twin:
            with open(LOG, "a") as f:
                f.write(json.dumps(rec, default=str) + "\n")
        if err:
            return False
        if twin:
            return out.checked > 0 and not out.failures
        return not unknown_fail


def h() -> bool:
    """
    post: _
    """
    return _run(False)


def h_twin() -> bool:
    """
    post: not _
    """
    return _run(True)
