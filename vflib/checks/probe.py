from crosshair.tracers import NoTracing
from vflib.che import Chooser, log_path

def h() -> bool:
    """
    post: _
    """
    ch = Chooser()
    with NoTracing():
        a = ch.pick("a", 5, shard=True)
        b = ch.pick("b", 4)
        c = ch.flag("c") if a == 2 else False
        log_path({"t": ch.trace})
        return not (a == 3 and b == 2 and False)
