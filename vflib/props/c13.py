"""C13 — dict-field options turn objects into mappings, and only those.

  CH-P/E : the dict-vs-model decision with *stub pattern objects* whose .match(key) answers are solver bits (any regex
           whatsoever), a solver bit for "field name is listed", symbolic emptiness and position.
  CH-E   : the CLI path (--dkr / --dkf) with concrete patterns; oracle = re.fullmatch ("anchored at both ends")."""
import copy
import re

from vflib.parts import CH


class StubPattern:
    def __init__(self, ch, idx, memo):
        self.ch, self.idx, self.memo = ch, idx, memo

    def match(self, key):
        k = (self.idx, key)
        if k not in self.memo:
            self.memo[k] = self.ch.flag(f"regex{self.idx}.match({key!r})")
        return self if self.memo[k] else None


def scen_decision(ch, params, out):
    from json_to_models.dynamic_typing import DDict, DList, DOptional, DUnion, ModelPtr
    from json_to_models.generator import MetadataGenerator
    from json_to_models.registry import ModelRegistry
    from vflib import oracles
    position = ch.choose("position", ["top_level_sample", "field_value", "list_element", "field_of_nested_model", "dict_value_of_listed_field",
                                      "same_keys_under_listed_and_unlisted_field", "same_keys_unlisted_field_first"], shard=True)
    nkeys = ch.pick("number_of_keys", 4)
    nregex = ch.pick("number_of_regexes", 3)
    listed = ch.flag("field_name_listed")
    vals = [1, "s", None]
    keys = ["k0", "k1", "k2"][:nkeys]
    obj = {k: vals[i] for i, k in enumerate(keys)}
    fname = "payload"
    memo = {}
    gen = MetadataGenerator(dict_keys_fields=[fname] if listed else None)
    gen.dict_keys_regex = [StubPattern(ch, i, memo) for i in range(nregex)]
    if position == "top_level_sample":
        sample = dict(obj)
    elif position == "field_value":
        sample = {"fix": 1, fname: obj}
    elif position == "list_element":
        sample = {"fix": 1, fname: [obj]}
    elif position == "same_keys_under_listed_and_unlisted_field":
        sample = {"fix": 1, fname: dict(obj), "elsewhere": dict(obj)}
    elif position == "same_keys_unlisted_field_first":
        sample = {"fix": 1, "elsewhere": dict(obj), fname: dict(obj)}
    elif position == "field_of_nested_model":
        sample = {"fix": 1, "outerobj": {"anchor": 1, "anchor2": 2, fname: obj}}
    else:
        sample = {"fix": 1, fname: {"inner": obj}}
    try:
        ir = gen.generate(copy.deepcopy(sample))
    except Exception as e:
        out.fail("generate_raises", f"{type(e).__name__}: {e} for {sample}", f"generate_raises:{type(e).__name__}")
        return
    # independent expectation (same stub answers; a pattern is consulted key by key until the first non-match)
    def all_match(keys_):
        for r in gen.dict_keys_regex:
            ok = True
            for k in keys_:
                if not r.match(k):
                    ok = False
                    break
            if ok:
                return True
        return False

    out.info = {"position": position, "keys": keys, "regexes": nregex, "listed": listed,
                "answers": {f"{i}:{k}": v for (i, k), v in memo.items()}}
    ctx = lambda: f"position={position} keys={keys} listed={listed} regex answers={ {f'{i}:{k}': v for (i, k), v in memo.items()} }"
    if position == "top_level_sample":
        out.check(isinstance(ir, dict) and set(ir) == set(keys), "top_level_not_a_model", lambda: f"{ir} ({ctx()})", "top_level_not_a_model")
        return
    if position.startswith("same_keys"):
        # the two objects are judged independently: the field-name option applies to `payload` only
        t2 = ir["elsewhere"]
        exp2 = (not keys) or all_match(keys)
        out.check(isinstance(t2, DDict) == exp2, "object_not_dict" if exp2 else "object_not_model",
                  lambda: f"field 'elsewhere' (same keys as the listed field): expected {'Dict' if exp2 else 'a model'}, inferred {t2} ({ctx()})",
                  ("object_not_dict" if exp2 else "object_not_model") + ":elsewhere")
        t = ir[fname]
        expect_dict = (not keys) or listed or all_match(keys)
    elif position == "field_value":
        t = ir[fname]
        expect_dict = (not keys) or listed or all_match(keys)
    elif position == "list_element":
        t = ir[fname]
        out.check(isinstance(t, DList), "list_lost", lambda: f"{t}", "list_lost")
        t = t.type
        expect_dict = (not keys) or all_match(keys)        # a list element is not the direct value of the field
    elif position == "field_of_nested_model":
        outer = ir["outerobj"]
        # the outer object itself: model unless a regex matches all of its keys
        outer_keys = ["anchor", "anchor2", fname]
        if all_match(outer_keys):
            out.check(isinstance(outer, DDict), "object_not_dict", lambda: f"outer {outer} ({ctx()})", "object_not_dict:outer")
            return
        if not out.check(isinstance(outer, dict), "object_not_model", lambda: f"outer {outer} ({ctx()})", "object_not_model:outer"):
            return
        t = outer[fname]
        expect_dict = (not keys) or listed or all_match(keys)
    else:  # dict_value_of_listed_field: payload = {"inner": obj}; payload itself is a direct field value
        t = ir[fname]
        payload_is_dict = listed or all_match(["inner"])
        if not payload_is_dict:
            out.check(isinstance(t, dict), "object_not_model", lambda: f"{t} ({ctx()})", "object_not_model:payload")
            t = t["inner"] if isinstance(t, dict) else None
            expect_dict = (not keys) or all_match(keys)     # "inner" is not a listed name
        else:
            out.check(isinstance(t, DDict), "object_not_dict", lambda: f"{t} ({ctx()})", "object_not_dict:payload")
            t = t.type if isinstance(t, DDict) else None
            expect_dict = (not keys) or all_match(keys)     # a dict value is not the direct value of a field
        if t is None:
            return
    if expect_dict:
        ok = out.check(isinstance(t, DDict), "object_not_dict", lambda: f"expected Dict[str, T], inferred {t} ({ctx()})", f"object_not_dict:{position}")
        if ok:
            why = []
            out.check(oracles.inhabits_ir(obj, t, why), "dict_value_type_rejects", lambda: f"{t} does not admit {obj}: {why} ({ctx()})",
                      "dict_value_type_rejects")
    else:
        out.check(isinstance(t, dict), "object_not_model", lambda: f"expected a model, inferred {t} ({ctx()})", f"object_not_model:{position}")
    # no class is generated for an object typed as a mapping
    reg = ModelRegistry()
    reg.process_meta_data(ir, model_name="Root")
    for m in reg.models:
        if m.name == "Root":
            continue
        if expect_dict and position in ("field_value", "list_element") :
            out.check(set(m.type.keys()) != set(keys) or not keys, "class_generated_for_mapping",
                      lambda: f"model with keys {list(m.type)} registered although the object is a mapping ({ctx()})", "class_generated_for_mapping")


ATOM_PATTERNS = [r"\d+", r"id_\w+", r"[a-z]"]


def pattern_grammar():
    """atoms, alternations of two atoms, each with an optional user-written leading ^ and / or trailing $"""
    bodies = list(ATOM_PATTERNS) + [f"{a}|{b}" for a in ATOM_PATTERNS for b in ATOM_PATTERNS if a != b] + [r"x.*", r"\d+|\w"]
    out = []
    for b in bodies:
        for pre in ("", "^"):
            for post in ("", "$"):
                out.append(pre + b + post)
    return out


PATTERNS = pattern_grammar()
KEYSETS = [["1", "22"], ["1", "2x"], ["x1", "2"], ["a"], ["ab"], ["b", "a"], ["x", "xyz"], ["ax"], ["id_a", "id_b"], ["id_a", "zid_b"], ["id_1_created", "id_2_x"],
           ["1", "id_a"], ["7_id", "id_7"], []]


def scen_cli(ch, params, out):
    """real CLI with --dkr / --dkf; a pattern given on the command line must match the whole key."""
    import ast as _ast
    import json
    from vflib import clienv, pipeline
    pats = ch.choose("patterns", [(p,) for p in PATTERNS] + [(r"\d+", r"id_\w+$"), (r"[a-z]", r"\d+")], shard=True)
    keys = ch.choose("keys", KEYSETS)
    use_dkf = ch.flag("dkf_lists_the_field")
    obj = {k: i for i, k in enumerate(keys)}
    doc = [{"fix": 1, "payload": obj, "other": {"plain": 1, "name": "n"}}]
    fs = {"/vfs/in.json": json.dumps(doc)}
    argv = ["-m", "Root", "/vfs/in.json", "-f", "pydantic", "--dkr"] + list(pats)
    if use_dkf:
        argv += ["--dkf", "payload"]
    res = clienv.run_main(argv, fs)
    out.info = {"patterns": list(pats), "keys": keys, "dkf": use_dkf}
    ctx = lambda: f"patterns={pats} keys={keys} dkf={use_dkf}"
    if not out.check(res.status == 0, "cli_fails", lambda: f"{res.stderr[-300:]} ({ctx()})", "cli_fails"):
        return
    def whole(p, k):
        # "anchored at both ends": the pattern as the user wrote it must match the entire key
        return re.fullmatch(f"(?:{p})", k) is not None
    expect_dict = (not keys) or use_dkf or any(all(whole(p, k) for k in keys) for p in pats)
    other_is_dict = any(all(whole(p, k) for k in ("plain", "name")) for p in pats)
    try:
        ld = pipeline.load_module(res.stdout)
    except Exception as e:
        out.checked += 1
        return   # loadability is C03's subject
    try:
        root = ld.classes["Root"]
        ann = pipeline.resolve_annotation(pipeline.own_annotations(root)["payload"], ld, root)
        import typing
        is_dict = typing.get_origin(ann) in (dict, typing.Dict)
        out.check(is_dict == expect_dict, "cli_dict_decision_wrong",
                  lambda: f"payload annotated {ann}; patterns must match whole keys: expected {'Dict' if expect_dict else 'a model'} ({ctx()})",
                  "cli_dict_decision_wrong:" + ("spurious_dict" if is_dict else "missed_dict"))
        has_payload_class = any(set(pipeline.own_annotations(c)) == set(pipeline.own_annotations(c)) and c.__name__ == "Payload" for c in ld.classes.values())
        out.check(has_payload_class == (not expect_dict), "cli_class_presence_wrong", lambda: f"classes {list(ld.classes)} ({ctx()})",
                  "cli_class_presence_wrong")
        ann2 = pipeline.resolve_annotation(pipeline.own_annotations(root)["other"], ld, root)
        out.check((typing.get_origin(ann2) in (dict, typing.Dict)) == other_is_dict, "cli_dict_decision_wrong",
                  lambda: f"other annotated {ann2} ({ctx()})", "cli_dict_decision_wrong:other")
    finally:
        ld.close()


def api_patterns():
    """patterns as the library API takes them: strings and compiled patterns, the latter with flags"""
    return {
        "hex_ignorecase": [re.compile(r"^[0-9a-f]{4}$", re.I)],
        "hex": [re.compile(r"^[0-9a-f]{4}$")],
        "word_ascii": [re.compile(r"^\w+$", re.A)],
        "word_unicode": [re.compile(r"^\w+$")],
        "digits_verbose": [re.compile(r"^ \d+ $  # digits only", re.X)],
        "digits_string": [r"^\d+$"],
        "same_text_two_flag_sets": [re.compile(r"^[a-z]+$"), re.compile(r"^[a-z]+$", re.I)],
        "same_text_two_flag_sets_reversed": [re.compile(r"^[a-z]+$", re.I), re.compile(r"^[a-z]+$")],
        "string_and_compiled": [r"^\d+$", re.compile(r"^[a-f]+$", re.I)],
        # (all patterns are written with ^...$ and no key ends in a newline, so "match" means the same under re.match and re.fullmatch)
        "dotall": [re.compile(r"^a.b$", re.S)],
    }


API_KEYSETS = [["DEAD", "beef"], ["dead", "beef"], ["12", "7"], ["gr\u00f6\u00dfe", "\u0438\u043c\u044f"], ["abc", "XYZ"], ["abc", "xyz"], ["a\nb"], ["a\nb", "axb"],
               ["ABC"], ["12", "x"]]


def scen_api(ch, params, out):
    """library API: the Dict-vs-model decision uses exactly the pattern objects that were passed (text AND flags)"""
    from json_to_models.dynamic_typing import DDict
    from json_to_models.generator import MetadataGenerator
    pats = api_patterns()
    name, keys = ch.choose("patterns,keys", [(n, k) for n in pats for k in API_KEYSETS], shard=True)
    plist = pats[name]
    position = ch.choose("position", ["field", "list_item", "nested"])
    obj = {k: i for i, k in enumerate(keys)}
    sample = {"payload": obj} if position == "field" else ({"payload": [obj]} if position == "list_item" else {"outer": {"pay-load": obj, "n-1": 1}})   # outer keys match no pattern of the pool
    out.info = {"patterns": name, "keys": keys, "position": position}
    compiled = [re.compile(p) if isinstance(p, str) else p for p in plist]
    expect_dict = any(all(p.match(k) for k in keys) for p in compiled)
    try:
        ir = MetadataGenerator(dict_keys_regex=list(plist)).generate(sample)
    except Exception as e:
        out.fail("generate_raises", f"{type(e).__name__}: {e} for patterns {name} keys {keys}", "generate_raises")
        return
    t = ir["payload"] if position != "nested" else ir["outer"]["pay-load"]
    if position == "list_item":
        t = t.type
    out.check(isinstance(t, DDict) == expect_dict, "api_dict_decision_wrong",
              lambda: f"patterns {name} = {[(p.pattern, p.flags) for p in compiled]}, keys {keys} ({position}): expected {'Dict' if expect_dict else 'model'}, inferred {t}",
              "api_dict_decision_wrong")


def parts(tier):
    if tier == "quick":
        return [CH("decision", "vflib.props.c13:scen_decision", {}, shards=7, timeout=170, path_timeout=30, mode="CH-P"),
                CH("api_pattern_objects", "vflib.props.c13:scen_api", {}, shards=16, timeout=170, path_timeout=30),
                CH("cli", "vflib.props.c13:scen_cli", {}, shards=16, timeout=170, path_timeout=30)]
    return [CH("decision", "vflib.props.c13:scen_decision", {}, shards=7, timeout=150, path_timeout=30, mode="CH-P"),
            CH("api_pattern_objects", "vflib.props.c13:scen_api", {}, shards=16, timeout=150, path_timeout=30),
            CH("cli", "vflib.props.c13:scen_cli", {}, shards=16, timeout=150, path_timeout=30)]


META = {
    "level": "exploration", "mode": "CH-P (stub regex answers as solver bits) + CH-E (CLI)",
    "explanation": "the dict-vs-model decision is explored for every emptiness / listed-bit / regex-answer vector / position; CLI anchoring against re.fullmatch on a pattern pool",
    "functions_encoded": ["MetadataGenerator._convert", "MetadataGenerator._detect_type (dict branch)", "MetadataGenerator.__init__", "Cli.set_args (pattern anchoring)",
                          "ModelRegistry.process_meta_data"],
    "symbolic_on_path": ["position of the object", "number of keys 0..3", "number of regexes 0..2", "answer bit of each consulted regex.match(key)", "field-name-listed bit"],
    "bounds": {"quick": "objects with <=3 keys, <=2 regexes (arbitrary answer functions), 5 positions; CLI: pattern grammar (3 atoms, their pairwise alternations, 2 extra) x optional ^ x optional $ = 46 patterns + 2 pairs, x 14 key sets x dkf bit"},
    "outside_claim": ["anchoring for arbitrary regex text (a pattern is a program, not a first-order value): claimed for the pattern pool only"],
    "assumptions": ["a stub pattern object stands for any compiled regex: only .match(key) is used by the code (checked by the run itself: any other attribute access raises)"],
}
if isinstance(META.get("bounds"), dict) and "quick" in META["bounds"]:
    META["bounds"]["quick"] += '; 10 sets of pattern objects with flags x 10 key sets x 3 positions through the library API'
