#!/bin/bash
# tools_runall.sh <quick|thorough> [ids...]  -- run checks sequentially on the current tree, log exit codes
cd "$(dirname "$0")"
tier=${1:-quick}; shift
ids=${@:-C01 C02 C03 C04 C05 C06 C07 C08 C09 C10 C11 C12 C13 C14 C15 C16 C17 C18 C19}
for id in $ids; do
  s=$(date +%s)
  ./vf $id $tier > /tmp/runall.$id.$tier.log 2>&1; rc=$?
  echo "$id $tier exit=$rc wall=$(( $(date +%s) - s ))s  $(tail -1 /tmp/runall.$id.$tier.log | cut -c1-160)"
done
