"""C14 — a generation is independent of what the process did before (CH-E over call histories)."""
import copy
import json
import os
import subprocess
import sys

from vflib.parts import CH

INPUTS = {
    "simple": [{"id": 1, "kind": "a", "tags": ["x"]}, {"id": 2, "kind": "b", "tags": []}],
    # one child model shared by two nested parents under one root: the nested layout needs a path injection ('Root.Item')
    "shared": [{"left": {"item": {"sku": "s", "qty": 1, "w": 1.5}, "l": 1}, "right": {"item": {"sku": "t", "qty": 2, "w": 2.5}, "r": "x"}}],
    "lists": [{"rows": [{"n": "1", "v": None}, {"n": "2", "v": "x", "extra": {"deep": True}}], "name": "n"}],
    "clash": [{"class": 1, "user-name": "u", "list": [{"id": 1}]}],
    # object-valued keys whose class / field names are reserved in SOME framework only (a name conversion that is written back
    # into the shared registry by one framework's generator would leak into the next render)
    # a field that is only ever null (dropped by pydantic/sqlmodel, kept by the others) and pseudo-typed strings
    "nullonly": [{"id": "1", "deleted_at": None, "tags": ["a"], "ratio": "1.5"}, {"id": "2", "deleted_at": None, "tags": [], "ratio": "2"}],
    # strings whose type depends on the string-type registry that the call passes explicitly
    "dates": [{"created": "2018-01-02", "n": "12", "flag": "true", "at": "11:22:33", "when": "2018-01-02T11:22:33", "s": "abc"},
              {"created": "2019-03-04", "n": "13", "flag": "false", "at": "01:02:03", "when": "2019-03-04T01:02:03", "s": "xyz"}],
    # non-ASCII keys and model names: their Python names depend on the convert_unicode option of the rendering call
    "unicode": [{"имя": "x", "Größe": 1, "вложение": {"Straße": 1, "ключ": 2.5}, "straße": {"ß": 1, "имя": "y"}}],
    "reserved": [{"config": {"a": 1}, "json": {"b": "x"}, "copy": [{"c": 1.5}], "field": {"d": True}, "validate": 1, "schema": "s"}],
}
_REF = {}


def infer_kwargs(registry):
    """registry: None (the library default) or the name of an explicitly passed registry (see c01.str_registry)"""
    if registry is None:
        return {}
    from vflib.props import c01
    return {"str_registry": c01.str_registry(registry)}


def reference(inp, fw, layout, override, registry=None):
    """text produced by a FRESH interpreter for the same input and options"""
    key = (inp, fw, layout, override, registry)
    if key not in _REF:
        code = (
            "import json,sys\n"
            "from vflib import pipeline\n"
            "from vflib.props.c14 import INPUTS, render_kwargs, infer_kwargs\n"
            f"g,r,_=pipeline.infer({{'Root': INPUTS[{inp!r}]}}, **infer_kwargs({registry!r}))\n"
            f"sys.stdout.write(json.dumps(pipeline.emit(r,{fw!r},{layout!r},**render_kwargs({fw!r},{override!r}))))\n")
        env = dict(os.environ)
        p = subprocess.run(["/venv/bin/python", "-c", code], capture_output=True, text=True, env=env, timeout=120)
        if p.returncode != 0:
            _REF[key] = ("error", p.stderr[-500:])
        else:
            _REF[key] = ("ok", json.loads(p.stdout))
    return _REF[key]


def render_kwargs(fw, override):
    """override: False/None, True or "types_style", "converters", "max_literals_0" """
    from json_to_models.dynamic_typing import StringLiteral
    kw = {}
    if fw in ("attrs", "dataclasses"):
        kw["meta"] = True
    if override in (True, "types_style"):
        kw["types_style"] = {StringLiteral: {StringLiteral.TypeStyle.use_literals: False}}
    elif override == "converters":
        kw["post_init_converters"] = True
    elif override == "max_literals_0":
        kw["max_literals"] = 0
    elif override == "no_unicode":
        kw["convert_unicode"] = False
    return kw


class Boom(Exception):
    pass


class ReusedIds:
    """Stub for the builtin id() inside json_to_models: the language only promises that id() is unique among objects alive at the same
    time, so an address may be handed out again once its object is gone.  CPython does that when the allocator happens to; this stub does it
    always (the smallest number no live object holds), which makes "state keyed by id() outlives the object" a deterministic observation
    instead of a matter of memory layout.  Objects that cannot be weakly referenced keep their real id."""

    def __init__(self):
        import builtins
        self.real = builtins.id
        self.live = {}
        self.free = []
        self.next = 1

    def __call__(self, obj):
        import heapq
        import weakref
        rid = self.real(obj)
        e = self.live.get(rid)
        if e is not None and e[1]() is obj:
            return e[0]
        small = heapq.heappop(self.free) if self.free else self.next
        if small == self.next:
            self.next += 1

        def gone(w, rid=rid, small=small):
            cur = self.live.get(rid)
            if cur is not None and cur[1] is w:
                del self.live[rid]
            heapq.heappush(self.free, small)
        try:
            w = weakref.ref(obj, gone)
        except TypeError:
            heapq.heappush(self.free, small)
            return rid
        self.live[rid] = (small, w)
        return small


_IDS = []


def install_reused_ids():
    import json_to_models.models.attr, json_to_models.models.dataclasses, json_to_models.models.pydantic, json_to_models.models.sqlmodel  # noqa
    import json_to_models.registry, json_to_models.generator  # noqa
    if not _IDS:
        _IDS.append(ReusedIds())
    for name, mod in list(sys.modules.items()):
        if name == "json_to_models" or name.startswith("json_to_models."):
            mod.id = _IDS[0]


def scen_history(ch, params, out):
    from json_to_models.dynamic_typing import AbsoluteModelRef
    from json_to_models.models.base import generate_code
    from vflib import pipeline
    inputs = params.get("inputs", ["simple", "shared"])
    fws = params.get("frameworks", ["pydantic", "dataclasses", "attrs"])
    ncalls = params.get("calls", 3)
    if params.get("reused_ids"):
        install_reused_ids()
    registries = params.get("registries")      # names of explicitly passed string-type registries, chosen per call
    first = [(i, f, l, a) for i in inputs for f in fws for l in ("flat", "nested") for a in ("fresh", "fail", "override")]
    if registries:
        first = [(x, r) for x in first for r in registries]
    history = []
    last = None     # (input, registry) of the previous successful inference
    log = []
    for c in range(ncalls):
        final = c == ncalls - 1
        regname = None
        if c == 0:
            pick = ch.choose("call0", first, shard=True)
            if registries:
                pick, regname = pick
            inp, fw, layout, action = pick
        elif final:
            inp, fw, layout = ch.choose(f"call{c}", [(i, f, l) for i in inputs for f in fws for l in ("flat", "nested")])
            action = "fresh"
            if params.get("final_with_options"):
                # the observed call itself may use a generator option (its reference is computed with the same option)
                fo = ch.choose("final_call_option", [None] + list(params.get("override_kinds", [])))
                if fo:
                    action = "override"
                    final_override = fo
        else:
            inp, fw, layout, action = ch.choose(f"call{c}", [(i, f, l, a) for i in inputs for f in fws for l in ("flat", "nested")
                                                             for a in ("fresh", "rerender", "fail", "override")])
        if registries and c > 0:
            regname = ch.choose(f"registry{c}", registries)
        log.append([inp, fw, layout, action] + ([regname] if registries else []))
        if action == "override" and final and params.get("final_with_options"):
            override = final_override
        else:
            override = ch.choose(f"override_kind{c}", params.get("override_kinds", ["types_style"])) if action == "override" else None
        try:
            if action == "rerender" and last is not None:
                inp, reg, regname = last
            else:
                gen, reg, _ = pipeline.infer({"Root": copy.deepcopy(INPUTS[inp])}, **infer_kwargs(regname))
                last = (inp, reg, regname)
        except Exception as e:
            out.fail("inference_raises", f"{type(e).__name__}: {e} in history {log}", "inference_raises")
            return
        if layout == "nested" and not pipeline.is_tree(reg) and inp != "shared":
            continue
        if action == "fail" and params.get("fail_with_options"):
            override = ch.choose(f"failing_call_option{c}", [None] + list(params.get("override_kinds", [])))
            log[-1].append(f"option={override}")
        kw = render_kwargs(fw, override)
        if action == "fail":
            base = pipeline.FRAMEWORKS[fw]
            count = [0]

            class Faulty(base):
                def generate(self, *a, **k):
                    count[0] += 1
                    if count[0] >= 2:
                        raise Boom("injected failure inside code generation")
                    return super().generate(*a, **k)
            try:
                generate_code(pipeline.LAYOUTS[layout](reg.models_map), Faulty, class_generator_kwargs=kw)
            except Boom:
                pass
            except Exception as e:
                pass
        else:
            try:
                text = pipeline.emit(reg, fw, layout, **kw)
            except Exception as e:
                text = ("raised", f"{type(e).__name__}: {e}")
            kind, ref = reference(inp, fw, layout, override, regname)
            if kind == "error":
                # the fresh interpreter fails as well (e.g. nested layout of a non-tree graph): then this call must fail too
                out.check(isinstance(text, tuple), "history_hides_failure", lambda: f"fresh process fails ({ref[:200]}) but call {log[-1]} succeeded after {log[:-1]}",
                          "history_hides_failure")
            else:
                out.check(text == ref, "output_depends_on_history",
                          lambda: f"call {log[-1]} after history {log[:-1]} differs from a fresh process:\n--- in history\n{text if isinstance(text, str) else text}\n--- fresh\n{ref}",
                          f"output_depends_on_history:{action}")
        ctxv = getattr(AbsoluteModelRef.Context.data, "context", None)
        out.check(ctxv is None, "reference_context_not_restored", lambda: f"AbsoluteModelRef context is {ctxv} after {log}", "reference_context_not_restored")
        if out.failures:
            break
    out.info = {"history": log}


def parts(tier):
    if tier == "quick":
        return [CH("history3", "vflib.props.c14:scen_history", {"calls": 3, "inputs": ["simple", "shared"], "frameworks": ["pydantic", "dataclasses"]},
                   shards=16, timeout=170, path_timeout=60),
                CH("history3_reserved_names", "vflib.props.c14:scen_history", {"calls": 3, "inputs": ["reserved"], "frameworks": ["pydantic", "dataclasses", "attrs"]},
                   shards=16, timeout=170, path_timeout=60),
                CH("history3_options", "vflib.props.c14:scen_history", {"calls": 3, "inputs": ["nullonly"], "frameworks": ["pydantic", "attrs", "base"],
                                                                        "override_kinds": ["converters", "max_literals_0"], "final_with_options": True},
                   shards=16, timeout=170, path_timeout=60),
                CH("history3_unicode_reused_ids", "vflib.props.c14:scen_history", {"calls": 3, "inputs": ["unicode"], "frameworks": ["pydantic", "dataclasses"],
                                                                                   "override_kinds": ["no_unicode"], "final_with_options": True, "fail_with_options": True,
                                                                                   "reused_ids": True}, shards=12, timeout=170, path_timeout=60),
                CH("history3_explicit_registries", "vflib.props.c14:scen_history", {"calls": 3, "inputs": ["dates"], "frameworks": ["pydantic"],
                                                                                    "registries": ["default", "none", "datetime"]},
                   shards=16, timeout=170, path_timeout=60)]
    return [CH("history3", "vflib.props.c14:scen_history", {"calls": 3, "inputs": ["simple", "shared", "lists", "clash", "reserved", "nullonly"], "frameworks": ["pydantic", "dataclasses", "attrs", "base"],
                "override_kinds": ["types_style", "converters", "max_literals_0"]},
               shards=16, timeout=150, path_timeout=60),
            CH("history4", "vflib.props.c14:scen_history", {"calls": 4, "inputs": ["shared", "clash"], "frameworks": ["pydantic", "attrs"]},
               shards=16, timeout=150, path_timeout=60)]


META = {
    "level": "exploration", "mode": "CH-E",
    "explanation": "every history of generate / re-render / failing render / override calls within the bound runs in one process; each successful render is compared with the same call in a fresh interpreter",
    "functions_encoded": ["generate_code / _generate_code", "AbsoluteModelRef.Context.__enter__/__exit__", "GenericModelCodeGenerator.__init__ (types_style, set_raw_name)", "cached_method",
                          "prepare_label / convert_class_name", "ModelRegistry.generate_names"],
    "symbolic_on_path": ["per call: input, framework, layout, action (fresh / re-render previous registry / failing render / types_style override)"],
    "bounds": {"quick": "3 calls; inputs {simple, shared}; frameworks {pydantic, dataclasses}; the last call is a fresh render", "thorough": "3 calls over 4 inputs x 3 frameworks; 4 calls over 2 x 2"},
    "outside_claim": ["the CLI's process-global string-type registry (mutated by --datetime / --disable-str-serializable-types; library calls use explicit registries)", "histories longer than 4 calls"],
    "assumptions": ["reference = the same call in a fresh /venv/bin/python process", "a failure inside code generation is an exception raised by the second class's generate()",
                    "part history3_unicode_reused_ids: the builtin id() as seen from json_to_models modules is replaced by a stub that honours the language contract (unique among live objects, stable during an object's life) and reuses the number of a dead object at once; non-weakref-able objects keep their real id"],
}
if isinstance(META.get("bounds"), dict) and "quick" in META["bounds"]:
    META["bounds"]["quick"] += '; 3 calls over non-ASCII / reserved keys where any call, also a failing one, may switch unicode conversion off, under adversarial id() reuse'
    META["bounds"]["quick"] += '; 3 calls with an explicitly passed string-type registry per call (default / none / datetime) on a date-bearing input'
