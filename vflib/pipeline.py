"""Thin, option-complete wrapper around the real library pipeline + loader for emitted modules (plain Python)."""
import dataclasses
import sys
import types
import typing
import uuid

from json_to_models.dynamic_typing import registry as default_str_registry
from json_to_models.generator import MetadataGenerator
from json_to_models.models.attr import AttrsModelCodeGenerator
from json_to_models.models.base import GenericModelCodeGenerator, generate_code
from json_to_models.models.dataclasses import DataclassModelCodeGenerator
from json_to_models.models.pydantic import PydanticModelCodeGenerator
from json_to_models.models.sqlmodel import SqlModelCodeGenerator
from json_to_models.models.structure import compose_models, compose_models_flat
from json_to_models.registry import ModelRegistry

FRAMEWORKS = {
    "base": GenericModelCodeGenerator,
    "pydantic": PydanticModelCodeGenerator,
    "sqlmodel": SqlModelCodeGenerator,
    "attrs": AttrsModelCodeGenerator,
    "dataclasses": DataclassModelCodeGenerator,
}
LAYOUTS = {"flat": compose_models_flat, "nested": compose_models}


def infer(samples_by_model, merge=None, str_registry=None, dkr=None, dkf=None, do_merge=True, names=True):
    gen = MetadataGenerator(str_types_registry=str_registry, dict_keys_regex=dkr, dict_keys_fields=dkf)
    reg = ModelRegistry(*(merge or ()))
    for name, data in samples_by_model.items():
        reg.process_meta_data(gen.generate(*data), model_name=name)
    replaced = reg.merge_models(gen) if do_merge else []
    if names:
        reg.generate_names()
    return gen, reg, replaced


def emit(reg, framework, layout="flat", preamble=None, **kwargs):
    structure = LAYOUTS[layout](reg.models_map)
    return generate_code(structure, FRAMEWORKS[framework], class_generator_kwargs=kwargs, preamble=preamble)


def is_tree(reg):
    """C03/C12 restriction for the nested layout: every non-root model is referenced from exactly one class
    (one referencing parent model, no root-level pointer besides for root models, no self reference)."""
    for m in reg.models:
        parents = [p.parent for p in m.pointers if p.parent is not None]
        rootptrs = [p for p in m.pointers if p.parent is None]
        if parents:
            if rootptrs or len({id(x) for x in parents}) != 1 or parents[0] is m:
                return False
    return True


# ------------------------------------------------------------------------------------------------ loading
class Loaded:
    def __init__(self, module, text):
        self.module, self.text = module, text
        self.classes = {}      # qualified name -> class
        self.enclosing = {}    # class -> list of enclosing classes (outermost first)

    def close(self):
        sys.modules.pop(self.module.__name__, None)


def load_module(text, name=None):
    """compile + exec the emitted text as a module that has only its own imports."""
    name = name or ("vf_emitted_" + uuid.uuid4().hex[:10])
    code = compile(text, f"<{name}>", "exec")
    module = types.ModuleType(name)
    sys.modules[name] = module
    try:
        exec(code, module.__dict__)
    except BaseException:
        sys.modules.pop(name, None)
        raise
    ld = Loaded(module, text)

    def walk(cls, outer):
        q = ".".join([c.__name__ for c in outer] + [cls.__name__])
        ld.classes[q] = cls
        ld.enclosing[cls] = list(outer)
        for v in list(vars(cls).values()):
            if isinstance(v, type) and v.__module__ == name and v is not cls and v.__qualname__.startswith(cls.__qualname__ + "."):
                walk(v, outer + [cls])

    for v in list(vars(module).values()):
        if isinstance(v, type) and v.__module__ == name and "." not in v.__qualname__:
            walk(v, [])
    return ld


def localns_for(ld, cls):
    ns = {}
    for c in ld.enclosing[cls] + [cls]:
        ns.update({k: v for k, v in vars(c).items() if isinstance(v, type)})
    return ns


def resolve_annotation(ann, ld, cls):
    g = ld.module.__dict__
    l = localns_for(ld, cls)
    if isinstance(ann, str):
        ann = typing.ForwardRef(ann, is_argument=False, is_class=True)
    r = typing._eval_type(ann, g, l)
    # typing reads a bare `None` annotation as NoneType (typing.get_type_hints does the same substitution)
    return type(None) if r is None else r


def own_annotations(cls):
    return dict(cls.__dict__.get("__annotations__", {}))


MISSING = object()


class Unresolvable:
    """stands for an annotation that raised when evaluated in its scope; equal to nothing"""
    def __init__(self, why):
        self.why = why

    def __repr__(self):
        return f"<annotation does not evaluate: {self.why}>"

    def __eq__(self, other):
        return False

    __hash__ = object.__hash__


def field_table(ld, cls, framework):
    """-> {python field name: dict(annotation=<resolved typing object>, raw=<raw annotation>, has_default, default, key)}
    `key` is the original JSON key recoverable from the class itself (pydantic alias / attrs, dataclass metadata), or None."""
    from json_to_models.models.base import METADATA_FIELD_NAME
    out = {}
    anns = own_annotations(cls)
    if framework in ("pydantic", "sqlmodel"):
        for fname, f in cls.__fields__.items():
            default = MISSING if f.required else (f.default_factory() if f.default_factory else f.default)
            out[fname] = {"raw": anns.get(fname), "has_default": not f.required, "default": default,
                          "key": f.alias if f.alias != fname else None}
    elif framework == "attrs":
        import attr
        for a in attr.fields(cls):
            if a.default is attr.NOTHING:
                d = MISSING
            elif isinstance(a.default, attr.Factory):
                d = a.default.factory()
            else:
                d = a.default
            out[a.name] = {"raw": anns.get(a.name), "has_default": d is not MISSING, "default": d,
                           "key": a.metadata.get(METADATA_FIELD_NAME), "converter": a.converter}
    elif framework == "dataclasses":
        for f in dataclasses.fields(cls):
            if f.default is not dataclasses.MISSING:
                d = f.default
            elif f.default_factory is not dataclasses.MISSING:
                d = f.default_factory()
            else:
                d = MISSING
            out[f.name] = {"raw": anns.get(f.name), "has_default": d is not MISSING, "default": d,
                           "key": f.metadata.get(METADATA_FIELD_NAME)}
    else:
        for fname, raw in anns.items():
            d = cls.__dict__.get(fname, MISSING)
            out[fname] = {"raw": raw, "has_default": d is not MISSING, "default": d, "key": None}
    for fname, rec in out.items():
        # a literal `None` annotation is an annotation (NoneType), not a missing one
        if fname in anns:
            try:
                rec["annotation"] = resolve_annotation(rec["raw"], ld, cls)
            except Exception as e:      # an annotation that does not evaluate denotes no type: reported by whoever compares it
                rec["annotation"] = Unresolvable(f"{type(e).__name__}: {e}")
        else:
            rec["annotation"] = None
    return out


def pydantic_resolve_all(ld):
    for q, cls in ld.classes.items():
        if hasattr(cls, "update_forward_refs"):
            cls.update_forward_refs(**localns_for(ld, cls))
