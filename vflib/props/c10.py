"""C10 — Literal annotations follow the documented limits and hold exact values.

  SMT-K : StringLiteral.__init__ (overflow rule) and StringLiteral.to_typing_code (limit comparison) translated from
          the source AST; 17 strings with symbolic lengths 0..25 and presence bits, symbolic max_literals.
  SMT-S : the escaping expression used for literal values, per code point over all Unicode scalar values.
  CH-E  : end to end — string sets around the 15/20/max boundaries with special characters, all frameworks,
          evaluated annotations of the emitted module.
"""
import ast

from vflib.parts import CH, SMT

N = 17


def replay_limits(case):
    """real classes on concrete strings of the lengths found by the solver"""
    from json_to_models.dynamic_typing import StringLiteral
    strs = {("%02d" % i).ljust(max(l, 2), "x")[:max(l, 2)] if l >= 2 else "abcdefghijklmnopq"[i][:l] for i, l in enumerate(case["lengths"])}
    strs = set()
    for i, l in enumerate(case["lengths"]):
        base = "abcdefghijklmnopqrstuvwxyz"[i]
        strs.add(base * l if l > 0 else "")
    lit = StringLiteral(strs)
    count = len(strs)
    spec_overflow = count > 15 or any(len(s) >= 20 for s in strs)
    if case["what"] == "overflow":
        if lit.overflowed != spec_overflow:
            return f"StringLiteral({sorted(strs, key=len)}) overflowed={lit.overflowed}, documented rule says {spec_overflow} ({count} strings, max length {max(map(len, strs), default=0)})"
        return None
    if spec_overflow:
        return None
    style = {StringLiteral: {"use_literals": case["use_literals"], "max_literals": case["limit"]}}
    _, code = lit.to_typing_code(style)
    spec_literal = case["use_literals"] and (case["limit"] is None or count < case["limit"])
    if code.startswith("Literal[") != spec_literal:
        return f"{count} strings with limit {case['limit']} (use_literals={case['use_literals']}): rendered {code[:40]!r}, documented rule says {'Literal' if spec_literal else 'str'}"
    return None


def kernel_limits(tier, seed, params):
    import z3
    from json_to_models.dynamic_typing import StringLiteral
    from vflib import py2smt
    from vflib.py2smt import Bounded, StrLen, Translator, Untranslatable
    res = {"obligations": 0, "discharged": 0, "queries": [], "counterexamples": [], "inconclusive": [], "errors": [],
           "functions_encoded": ["StringLiteral.__init__", "StringLiteral.to_typing_code (branch decision)"],
           "bounds": {"strings": N, "lengths": "0..25", "max_literals": "0..20 or None"}, "samples": [], "solver_time_s": 0.0}
    lens = [z3.Int(f"len{i}") for i in range(N)]
    pres = [z3.Bool(f"present{i}") for i in range(N)]
    dom = [z3.And(l >= 0, l <= 25) for l in lens] + [z3.Implies(pres[i + 1], pres[i]) for i in range(N - 1)]
    coll = Bounded([StrLen(l) for l in lens], pres)
    count = z3.Sum(*[z3.If(p, 1, 0) for p in pres])
    spec_overflow = z3.Or(count > 15, *[z3.And(p, l >= 20) for p, l in zip(pres, lens)])
    try:
        T = Translator()
        inst = StringLiteral.__new__(StringLiteral)
        T.call_function(StringLiteral.__init__, [inst, coll])
        impl_overflow = py2smt.to_bool(T.last_env["self._overflow"])
        # to_typing_code: which return statement fires?
        tree = py2smt.function_ast(StringLiteral.to_typing_code)
        rets = [n for n in ast.walk(tree) if isinstance(n, ast.Return)]
        lit_lines = [r.lineno for r in rets if "Literal" in ast.unparse(r.value)]
        if len(lit_lines) != 1 or len(rets) != 2:
            raise Untranslatable("to_typing_code no longer has one Literal return and one str return")
        use_lit = z3.Bool("use_literals")
        limit = z3.Int("limit")
        impl_lit = {}
        for name, lim in (("limit_int", limit), ("limit_none", None)):
            T2 = Translator(return_mode="lineno")
            T2.frozen = {"options"}
            inst2 = StringLiteral.__new__(StringLiteral)
            inst2._literals = coll
            inst2._overflow = False
            opts = {StringLiteral.TypeStyle.use_literals: use_lit, StringLiteral.TypeStyle.max_literals: lim}
            r = T2.call_function(StringLiteral.to_typing_code, [inst2, "types_style"], extra_env={"options": opts})
            impl_lit[name] = (r == lit_lines[0])
    except (Untranslatable, KeyError) as e:
        res["obligations"] = 1
        res["inconclusive"].append(f"translator refused the current source: {e}")
        return res
    obligations = [
        ("overflow_rule", dom, impl_overflow, spec_overflow, {"what": "overflow"}),
        ("limit_rule_int", dom + [z3.Not(spec_overflow), limit >= 0, limit <= 20], impl_lit["limit_int"], z3.And(use_lit, count < limit),
         {"what": "limit"}),
        ("limit_rule_none", dom + [z3.Not(spec_overflow)], impl_lit["limit_none"], use_lit, {"what": "limit", "none": True}),
    ]
    # translator validation on concrete points
    import random
    rnd = random.Random(seed)
    bad = 0
    for _ in range(150):
        k = rnd.randint(0, N)
        ls = [rnd.choice([0, 1, 3, 18, 19, 20, 21, 25]) if rnd.random() < 0.3 else rnd.randint(1, 12) for _ in range(N)]
        sub = [(lens[i], z3.IntVal(ls[i])) for i in range(N)] + [(pres[i], z3.BoolVal(i < k)) for i in range(N)]
        enc = z3.is_true(z3.simplify(z3.substitute(impl_overflow, *sub)))
        strs = {"abcdefghijklmnopqrstuvwxyz"[i] * ls[i] for i in range(k)}
        if len(strs) != k:
            continue
        if enc != StringLiteral(strs).overflowed:
            bad += 1
            res["errors"].append(f"translator validation: overflow on lengths {ls[:k]}: encoding {enc}")
    res["validation"] = {"points": 150, "disagreements": bad}
    if bad:
        return res
    for name, pre, impl, spec, extra in obligations:
        res["obligations"] += 1
        q = py2smt.solve(pre + [impl != spec], timeout_s=120, name=name)
        res["solver_time_s"] += q["time_s"]
        res["queries"].append({"name": f"impl!=spec:{name}", "result": q["result"], "time_s": q["time_s"], "engine": q["engine"]})
        tw = py2smt.solve(pre + [impl], timeout_s=30)
        tw2 = py2smt.solve(pre + [z3.Not(impl)], timeout_s=30)
        if "unsat" in (tw["result"], tw2["result"]):      # a timeout of the witness query is not a vacuity finding
            res["errors"].append(f"vacuity twin of {name}: {tw['result']}/{tw2['result']}")
        if q["result"] == "unsat":
            res["discharged"] += 1
        elif q["result"] == "sat":
            m = q["model"]
            k = sum(1 for p in pres if z3.is_true(m.eval(p, model_completion=True)))
            # distinct strings need distinct (letter, length) — the replay uses a different letter per index
            case = dict(extra)
            case["lengths"] = [m.eval(lens[i], model_completion=True).as_long() for i in range(k)]
            case["use_literals"] = z3.is_true(m.eval(use_lit, model_completion=True))
            case["limit"] = None if extra.get("none") else m.eval(limit, model_completion=True).as_long()
            res["counterexamples"].append({"replay": "vflib.props.c10:replay_limits", "case": case, "what": f"{name}: implementation and documented rule differ",
                                           "fingerprint": f"literal_limits:{name}"})
        else:
            res["inconclusive"].append(f"{name}: {q['result']}")
    res["samples"] = [{"obligation": "exists <=17 strings (lengths 0..25) . overflowed(impl) != (count > 15 or some length >= 20)"},
                      {"obligation": "exists non-overflowing set, limit . Literal-branch(impl) != (use_literals and count < limit)"}]
    return res


def replay_escape(case):
    from vflib import emitcheck, pipeline
    import typing
    s = case["string"]
    gen, reg, _ = pipeline.infer({"Root": [{"a": s}, {"a": "plain"}]})
    text = pipeline.emit(reg, "pydantic", "flat")
    try:
        ld = pipeline.load_module(text)
    except Exception as e:
        return f"Literal of {s!r}: emitted module does not load: {type(e).__name__}: {e}"
    try:
        ann = pipeline.resolve_annotation(pipeline.own_annotations(ld.classes["Root"])["a"], ld, ld.classes["Root"])
        got = set(typing.get_args(ann))
        if got != {s, "plain"}:
            return f"observed strings {sorted([s, 'plain'])!r} but the evaluated annotation lists {sorted(got)!r}"
        return None
    finally:
        ld.close()


def kernel_escape(tier, seed, params):
    from json_to_models.dynamic_typing import StringLiteral
    from vflib import strmodels
    res = {"obligations": 1, "discharged": 0, "queries": [], "counterexamples": [], "inconclusive": [], "errors": [],
           "functions_encoded": ["StringLiteral.to_typing_code (escaping expression of each literal)"],
           "bounds": {"code_points": "all Unicode scalar values; strings of any length by the homomorphism argument"}, "samples": [], "solver_time_s": 0.0}
    tree = strmodels.function_tree(StringLiteral.to_typing_code)
    gens = [n for n in ast.walk(tree) if isinstance(n, ast.GeneratorExp)]
    kind, src = None, None
    for g in gens:
        if isinstance(g.generators[0].target, ast.Name):
            kind = strmodels.classify_quote_expr(g.elt, g.generators[0].target.id)
            src = ast.unparse(g.elt)
            if kind:
                break
    if kind is None:
        res["inconclusive"].append(f"escaping expression {src!r} is outside the translator's subset")
        return res
    errs, npts = strmodels.validate_models([kind], seed)
    res["validation"] = {"points": npts, "disagreements": len(errs)}
    res["errors"] += errs
    if errs:
        return res
    rec, cp = strmodels.decide(kind, f"exists c . decode(render(c)) != c  [Literal values: {src}]")
    res["queries"].append(rec)
    res["solver_time_s"] += rec["time_s"]
    if rec["twin"] != "sat":
        res["errors"].append("vacuity twin " + rec["twin"])
    if rec["result"] == "unsat":
        res["discharged"] = 1
    elif rec["result"] == "sat":
        res["counterexamples"].append({"replay": "vflib.props.c10:replay_escape", "case": {"string": "x" + chr(cp) + "y", "code_point": cp},
                                       "what": f"code point U+{cp:04X} does not survive {src}", "fingerprint": f"literal_value_not_exact:{kind}"})
    else:
        res["inconclusive"].append(rec["result"])
    res["samples"] = [{"obligation": f"Literal values are written with {src} ({kind})"}]
    return res


SPECIAL_SETS = [
    [], ['q"uote'], ["back\\slash", "new\nline"], ["v00,v01"], ["v01,v00", "com,ma"], ["café", "emoji\U0001F600"],
    ["\u041c\u043e\u0441\u043a\u0432\u0430 \u041a\u0438\u0457\u0432 \u043e\u043a"], ['"' * 6 + "\\" * 5 + "\t"], ["'single'", "sp ace", ""],
]


def scen_e2e(ch, params, out):
    import typing
    from json_to_models.dynamic_typing import StringLiteral
    from vflib import pipeline
    counts = params.get("counts", [1, 2, 3, 9, 10, 11, 14, 15, 16, 17])
    limits = params.get("limits", [0, 1, 2, 3, 10, 11, 15, 16, 17])
    c, m = ch.choose("count,max_literals", [(c, m) for c in counts for m in limits], shard=True)
    spread = ch.choose("arrangement", ["one_list", "one_per_sample", "two_lists", "list_and_joined_singleton"])
    if spread == "list_and_joined_singleton":      # does not depend on the other selectors: keep them out of the path tree
        profile, specials = "short", []
        if c != 3:
            out.checked += 1
            return
    else:
        profile = ch.choose("length_profile", ["short", "one19", "one20", "one21"])
        specials = ch.choose("special_strings", SPECIAL_SETS)
    fw = ch.choose("framework", params.get("frameworks", ["base", "pydantic", "sqlmodel", "attrs", "dataclasses"]))
    strs = [f"v{i:02d}" for i in range(c)]
    for i, sp in enumerate(specials[:max(c - 2, 0)] if c > 2 else specials[:c - 1] if c > 1 else []):
        strs[-1 - i] = sp
    nspecial = len(specials)
    if profile != "short":
        strs[0] = "L" * {"one19": 19, "one20": 20, "one21": 21}[profile]
    if spread == "one_list":
        samples = [{"a": list(strs)}]
        elem = True
    elif spread == "two_lists":
        samples = [{"a": strs[: c // 2 + 1]}, {"a": strs[c // 2:] or strs[:1]}]
        elem = True
    elif spread == "list_and_joined_singleton":
        # a list of some strings next to a one-element list holding their comma-joined text (both spellings of the join):
        # the two lists are different types even if a textual summary of their literal sets coincides
        base = [x for x in strs if "," not in x][:2] or strs[:1]
        samples = [{"a": list(base)}, {"a": [",".join(base)]}, {"a": [",".join(reversed(base))]}]
        strs = list(dict.fromkeys(base + [",".join(base), ",".join(reversed(base))]))
        c = len(strs)
        elem = True
    else:
        samples = [{"a": s} for s in strs]
        elem = False
    out.info = {"count": c, "max_literals": m, "profile": profile, "specials": nspecial, "arrangement": spread, "framework": fw}
    ctx = lambda: f"{c} strings {strs[:3]}.. profile={profile} max_literals={m} {spread} {fw}"
    # plumbing of the limit into the generator's type style
    from vflib.pipeline import FRAMEWORKS
    from json_to_models.dynamic_typing import ModelMeta
    try:
        gen, reg, _ = pipeline.infer({"Root": samples})
        text = pipeline.emit(reg, fw, "flat", max_literals=m)
        ld = pipeline.load_module(text)
    except Exception as e:
        out.fail("pipeline_raises", f"{type(e).__name__}: {e} ({ctx()})", f"pipeline_raises:{type(e).__name__}")
        return
    try:
        root = ld.classes["Root"]
        ann = pipeline.resolve_annotation(pipeline.own_annotations(root)["a"], ld, root)
        if elem:
            ann = typing.get_args(ann)[0]
        expect_literal = all(len(s) < 20 for s in strs) and c <= 15 and c < m and fw != "attrs" and m != 0
        is_lit = typing.get_origin(ann) is typing.Literal
        if fw == "attrs" or m == 0:
            out.check("Literal" not in text, "literal_where_forbidden", lambda: f"Literal appears ({ctx()})\n{text}", "literal_where_forbidden")
        if expect_literal:
            ok = out.check(is_lit, "literal_missing", lambda: f"expected Literal of {c} strings, annotation is {ann} ({ctx()})", "literal_missing")
            if ok:
                got = set(typing.get_args(ann))
                out.check(got == set(strs), "literal_values_differ",
                          lambda: f"observed {sorted(strs)!r}, annotation lists {sorted(map(str, got))!r} ({ctx()})", "literal_values_differ")
        else:
            out.check(ann is str, "literal_beyond_limits", lambda: f"expected str, annotation is {ann} ({ctx()})", "literal_beyond_limits")
    finally:
        ld.close()


CONTEXT_SPECIALS = [[], ["a\u2028b"], ["\u0085", "p\u2029q"], ["tab\there", "x\x1cy"]]


def scen_context(ch, params, out):
    """the literal field in context: samples without the key (or with null) between the strings, the overflowing string first or
    last, the field in the root or in a child class (flat / nested layout), strings with Unicode line separators"""
    import typing
    from vflib import pipeline
    counts = params.get("counts", [1, 2, 3, 15, 16])
    limits = params.get("limits", [0, 10, 16, 17])
    c, m = ch.choose("count,max_literals", [(c, m) for c in counts for m in limits], shard=True)
    gap = ch.choose("gap_sample", ["none", "absent", "null"])
    gap_pos = ch.choose("gap_position", ["first", "second", "before_last"]) if gap != "none" else None
    long_pos = ch.choose("long_string", ["none", "first", "last"])
    specials = ch.choose("special_strings", CONTEXT_SPECIALS)
    placement = ch.choose("placement", ["root_flat", "child_flat", "child_nested"])
    fw = ch.choose("framework", params.get("frameworks", ["pydantic", "dataclasses"]))
    strs = [f"v{i:02d}" for i in range(c)]
    for i, sp in enumerate(specials[:max(c - 1, 0)]):
        strs[-1 - i] = sp
    if long_pos == "first":
        strs[0] = "L" * 20
    elif long_pos == "last":
        strs[-1] = "L" * 20
    seq = [{"a": x} for x in strs]
    if gap != "none":
        g = {} if gap == "absent" else {"a": None}
        seq.insert({"first": 0, "second": 1, "before_last": len(seq) - 1}[gap_pos], g)
    if placement != "root_flat":
        seq = [{"child": dict(x, n=1), "id": 1} for x in seq]
    layout = "nested" if placement == "child_nested" else "flat"
    out.info = {"count": c, "max_literals": m, "gap": [gap, gap_pos], "long": long_pos, "specials": specials, "placement": placement, "framework": fw}
    ctx = lambda: f"{c} strings {strs[:3]}..{strs[-1:]} gap={gap}@{gap_pos} long={long_pos} max_literals={m} {placement} {fw}"
    try:
        gen, reg, _ = pipeline.infer({"Root": seq})
        text = pipeline.emit(reg, fw, layout, max_literals=m)
        ld = pipeline.load_module(text)
    except Exception as e:
        out.fail("pipeline_raises", f"{type(e).__name__}: {e} ({ctx()})", f"pipeline_raises:{type(e).__name__}")
        return
    try:
        want = "Root" if placement == "root_flat" else "Child"
        cls = next((k for q, k in ld.classes.items() if q.split(".")[-1] == want), None)
        if not out.check(cls is not None, "class_missing", lambda: f"no class {want} ({ctx()})\n{text}", "class_missing"):
            return
        ann = pipeline.resolve_annotation(pipeline.own_annotations(cls)["a"], ld, cls)
        if typing.get_origin(ann) is typing.Union:
            rest = [x for x in typing.get_args(ann) if x is not type(None)]
            ann = rest[0] if len(rest) == 1 else ann
        expect_literal = all(len(x) < 20 for x in strs) and c <= 15 and c < m and m != 0
        if expect_literal:
            if out.check(typing.get_origin(ann) is typing.Literal, "literal_missing", lambda: f"expected Literal of {c} strings, annotation is {ann} ({ctx()})", "literal_missing"):
                got = set(typing.get_args(ann))
                out.check(got == set(strs), "literal_values_differ",
                          lambda: f"observed {sorted(strs)!r}, annotation lists {sorted(map(str, got))!r} ({ctx()})\n{text}", "literal_values_differ")
        else:
            out.check(ann is str, "literal_beyond_limits", lambda: f"expected str, annotation is {ann} ({ctx()})", "literal_beyond_limits")
    finally:
        ld.close()


def scen_two_generators(ch, params, out):
    """the configured maximum belongs to ONE generator object: constructing another generator (other limit, same or other
    framework) between construction and rendering must not change what the first one emits"""
    from json_to_models.dynamic_typing import ModelMeta, StringLiteral
    from vflib import pipeline
    fws = ["base", "pydantic", "dataclasses", "attrs"]
    fa, fb = ch.choose("frameworks(A,B)", [(a, b) for a in fws for b in fws], shard=True)
    ma = ch.choose("max_literals_A", [0, 1, 3, 4, 10])
    mb = ch.choose("max_literals_B", [0, 1, 3, 4, 10])
    n = ch.choose("distinct_strings", [1, 3, 9])
    when = ch.choose("B_constructed", ["before_A", "between_construct_and_generate", "after_generate", "same_model_rendered_again_with_B_limit"])
    strs = {f"v{i}" for i in range(n)}
    model_a = ModelMeta({"f": StringLiteral(set(strs)), "g": int}, "1A")
    model_a.set_raw_name("A")
    model_b = ModelMeta({"f": StringLiteral({"x", "y"}), "g": int}, "1B")
    model_b.set_raw_name("B")
    GA, GB = pipeline.FRAMEWORKS[fa], pipeline.FRAMEWORKS[fb]
    out.info = {"A": [fa, ma], "B": [fb, mb], "strings": n, "when": when}
    try:
        if when == "before_A":
            gb = GB(model_b, max_literals=mb)
        ga = GA(model_a, max_literals=ma)
        if when == "between_construct_and_generate":
            gb = GB(model_b, max_literals=mb)
        _, text = ga.generate()
        if when == "after_generate":
            gb = GB(model_b, max_literals=mb)
            _, text = ga.generate()
    except Exception as e:
        out.fail("generator_raises", f"{type(e).__name__}: {e} ({out.info})", "generator_raises")
        return
    if when == "same_model_rendered_again_with_B_limit":
        try:
            _, text = GA(model_a, max_literals=mb).generate()     # the same model (and its type objects) under the other limit
        except Exception as e:
            out.fail("generator_raises", f"{type(e).__name__}: {e} ({out.info})", "generator_raises")
            return
        ma = mb
    expect_literal = n < ma and fa != "attrs" and ma != 0
    has = "Literal[" in text
    out.check(has == expect_literal, "limit_of_another_generator_applied",
              lambda: f"generator A ({fa}, max_literals={ma}, {n} strings) rendered {'a Literal' if has else 'str'} after generator B ({fb}, max_literals={mb}) was constructed {when}:\n{text}",
              "limit_of_another_generator_applied")


def scen_cli_limit(ch, params, out):
    """--max-strings-literals N through the real CLI (0 must disable Literal annotations; absent means 10)"""
    import json
    import typing
    from vflib import clienv, pipeline
    opt = ch.choose("option", [None, 0, 1, 2, 3, 4, 10, 11, 16], shard=True)
    n = ch.choose("distinct_strings", [1, 2, 3, 9, 10, 15])
    fw = ch.choose("framework", ["base", "pydantic", "dataclasses", "attrs"])
    via_kwargs = ch.flag("via_code_generator_kwargs") if opt is not None else False
    strs = [f"v{i:02d}" for i in range(n)]
    fs = {"/vfs/in.json": json.dumps([{"a": s_} for s_ in strs])}
    argv = ["-m", "Root", "/vfs/in.json", "-f", fw]
    if opt is not None:
        argv += ["--code-generator-kwargs", f"max_literals={opt}"] if via_kwargs else ["--max-strings-literals", str(opt)]
    res = clienv.run_main(argv, fs)
    out.info = {"argv": argv, "strings": n}
    if not out.check(res.status == 0, "cli_fails", lambda: f"{res.stderr[-300:]} argv={argv}", "cli_fails"):
        return
    limit = 10 if opt is None else opt
    expect = n < limit and fw != "attrs" and limit != 0
    has = "Literal[" in res.stdout.split('\n"""\n', 1)[-1]
    out.check(has == expect, "cli_literal_limit_wrong", lambda: f"argv={argv}: {n} distinct strings, limit {limit}: {'Literal' if has else 'str'} emitted", "cli_literal_limit_wrong")


def parts(tier):
    if tier == "quick":
        return [SMT("limits", "vflib.props.c10:kernel_limits", {}, timeout=500),
                SMT("escaping", "vflib.props.c10:kernel_escape", {}, timeout=200, mode="SMT-S"),
                CH("e2e", "vflib.props.c10:scen_e2e", {"counts": [1, 3, 9, 10, 11, 15, 16, 17], "limits": [0, 1, 4, 10, 11, 16, 17]},
                   shards=16, timeout=170, path_timeout=30),
                CH("two_generators", "vflib.props.c10:scen_two_generators", {}, shards=16, timeout=170, path_timeout=30),
                CH("literal_field_in_context", "vflib.props.c10:scen_context", {}, shards=16, timeout=170, path_timeout=30),
                CH("cli_limit_option", "vflib.props.c10:scen_cli_limit", {}, shards=9, timeout=170, path_timeout=30)]
    return [SMT("limits", "vflib.props.c10:kernel_limits", {}, timeout=400),
            SMT("escaping", "vflib.props.c10:kernel_escape", {}, timeout=200, mode="SMT-S"),
            CH("e2e", "vflib.props.c10:scen_e2e", {"counts": list(range(1, 18)), "limits": list(range(0, 18))}, shards=16, timeout=150, path_timeout=30),
            CH("two_generators", "vflib.props.c10:scen_two_generators", {}, shards=16, timeout=150, path_timeout=30),
            CH("literal_field_in_context", "vflib.props.c10:scen_context", {"counts": [1, 2, 3, 4, 14, 15, 16, 17], "limits": [0, 1, 3, 10, 15, 16, 17],
                                                                            "frameworks": ["pydantic", "sqlmodel", "dataclasses", "base"]}, shards=16, timeout=150, path_timeout=30),
            CH("cli_limit_option", "vflib.props.c10:scen_cli_limit", {}, shards=9, timeout=150, path_timeout=30)]


META = {
    "level": "other",
    "technique": "SMT (z3 LIA) on the overflow rule and the limit comparison translated from the source AST; per-code-point SMT for literal escaping; CrossHair-exhausted boundary string sets through the real pipeline",
    "mode": "SMT-K + SMT-S + CH-E",
    "explanation": "limits: for all collections of <=17 strings with lengths 0..25 the translated code equals the documented rule; escaping: every Unicode scalar value; end to end: evaluated annotations of emitted modules around all boundaries",
    "functions_encoded": ["StringLiteral.__init__", "StringLiteral.to_typing_code", "DUnion.__init__ (literal folding, end to end)", "MetadataGenerator.optimize_type (literal clause, end to end)",
                          "GenericModelCodeGenerator.__init__ (limit plumbing, end to end)", "AttrsModelCodeGenerator.default_types_style"],
    "symbolic_on_path": ["string lengths and presence bits (SMT)", "max_literals (SMT)", "code point (SMT)", "count, limit, length profile, special strings, arrangement, framework (CH-E)"],
    "bounds": {"quick": "17 strings x lengths 0..25 x limit 0..20 (SMT); all code points (SMT); 8 counts x 7 limits x 4 length profiles x 4 special-string counts x 3 arrangements x 5 frameworks",
               "thorough": "counts 1..17 x limits 0..17"},
    "outside_claim": ["more than 17 strings", "lone surrogates"],
    "assumptions": ["documented rule: Literal iff every string shorter than 20, at most 15 distinct, fewer than max_literals, not attrs, max_literals != 0"],
}
if isinstance(META.get("bounds"), dict) and "quick" in META["bounds"]:
    META["bounds"]["quick"] += '; literal field in context: 5 counts x 4 limits x gap sample (absent / null at 3 positions) x long string first / last x 4 special sets x 3 placements x 2 frameworks'
