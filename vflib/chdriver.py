"""CrossHair driver: runs ONE harness function (one condition) in this process and prints a JSON result.

Usage: python -m vflib.chdriver <module> <function> <cond_timeout_s> <path_timeout_s> <out.json>

Engine configuration (see DESIGN.md section 2):
  * short-circuiting of contract-bearing callees disabled;
  * `premature realize` parallel fork disabled (symbols are created directly by vflib.che);
  * z3.Solver.check wrapped to count queries and solver time;
  * `max_uninteresting_iterations` = unlimited, so only exhaustion / refutation / the time budget stop a run.
"""
import importlib
import json
import os
import random
import sys
import time
import traceback


def main(argv):
    modname, fnname, cond_timeout, path_timeout, out = argv
    cond_timeout = float(cond_timeout)
    path_timeout = float(path_timeout)
    sys.setrecursionlimit(20000)
    seed = int(os.environ.get("VERIF_SEED", "0") or 0)
    random.seed(seed)

    import z3
    stats = {"solver_calls": 0, "solver_time_s": 0.0}
    _orig_check = z3.Solver.check

    def counted_check(self, *a, **k):
        t0 = time.perf_counter()
        try:
            return _orig_check(self, *a, **k)
        finally:
            stats["solver_calls"] += 1
            stats["solver_time_s"] += time.perf_counter() - t0

    z3.Solver.check = counted_check

    import crosshair.core_and_libs  # noqa: F401  (registers library models)
    import crosshair.core as core
    from crosshair.options import AnalysisOptionSet
    from crosshair.statespace import MessageType

    core.consider_shortcircuit = lambda *a, **k: None

    # record what analyze_calltree found (exhaustion flag is not exported through messages)
    _orig_act = core.analyze_calltree
    tree = {}

    def wrapped_act(options, conditions):
        res = _orig_act(options, conditions)
        tree["status"] = res.verification_status.name
        tree["confirmed_paths"] = res.num_confirmed_paths
        tree["iterations"] = (options.stats or {}).get("num_paths", None)
        return res

    core.analyze_calltree = wrapped_act

    mod = importlib.import_module(modname)
    fn = getattr(mod, fnname)
    import collections
    counter = collections.Counter()
    opts = AnalysisOptionSet(
        per_condition_timeout=cond_timeout,
        per_path_timeout=path_timeout,
        max_uninteresting_iterations=0,   # 0 => sys.maxsize (never give up for lack of novelty)
        max_iterations=sys.maxsize,
        report_all=True,
        stats=counter,
    )
    t0 = time.time()
    result = {"module": modname, "function": fnname, "seed": seed}
    try:
        checkables = core.analyze_function(fn, opts)
        if not checkables:
            raise RuntimeError("no contract found on harness " + fnname)
        messages = core.run_checkables(checkables)
        result["messages"] = [
            {"state": m.state.name, "message": m.message, "line": m.line, "traceback": (m.traceback or "")[-4000:]}
            for m in messages
        ]
        states = {m.state for m in messages}
        if states == {MessageType.CONFIRMED}:
            verdict = "confirmed"
        elif MessageType.POST_FAIL in states or MessageType.EXEC_ERR in states or MessageType.POST_ERR in states:
            verdict = "refuted"
        elif MessageType.PRE_UNSAT in states:
            verdict = "pre_unsat"
        elif MessageType.SYNTAX_ERR in states or MessageType.IMPORT_ERR in states:
            verdict = "harness_error"
        else:
            verdict = "unknown"
        result["verdict"] = verdict
    except BaseException as e:  # noqa
        result["verdict"] = "harness_error"
        result["error"] = "".join(traceback.format_exception(type(e), e, e.__traceback__))[-6000:]
    result["tree"] = tree
    result["iterations"] = counter.get("num_paths", 0)
    result["wall_s"] = round(time.time() - t0, 3)
    result.update(stats)
    result["solver_time_s"] = round(result["solver_time_s"], 3)
    with open(out, "w") as f:
        json.dump(result, f)


if __name__ == "__main__":
    main(sys.argv[1:])
