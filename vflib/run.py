"""Runner:  python -m vflib.run <C..> <quick|thorough>     |     python -m vflib.run replay <file>

Exit codes: 0 held / only known findings; 1 + "VIOLATION property=<id> replay=<path>" for a replayed, unlisted
violation; 3 harness error (vacuous harness, non-reproducing counterexample, translator / environment-model
validation failure, solver error).  A budget-limited (non-exhaustive) exploration exits 0 with exhaustive:false.
"""
import concurrent.futures as cf
import glob
import hashlib
import importlib
import json
import os
import random
import shutil
import subprocess
import sys
import tempfile
import time

from vflib import known

ROOT = os.path.dirname(os.path.dirname(os.path.abspath(__file__)))
VENV_PY = os.path.join(ROOT, ".venv", "bin", "python")
PLAIN_PY = "/venv/bin/python"
NCPU = min(16, os.cpu_count() or 4)


OUT = os.environ.get("VF_OUT") or ROOT       # where evidence/ and replays/ go (default: /verif)


def _env(extra):
    env = dict(os.environ)
    env["PYTHONPATH"] = ROOT + os.pathsep + os.path.join(ROOT, "stubs")
    if os.environ.get("VF_REPO"):       # analyse another checkout instead of /repo (used for seeded-change experiments only)
        env["PYTHONPATH"] = os.environ["VF_REPO"] + os.pathsep + env["PYTHONPATH"]
    env["PYTHONDONTWRITEBYTECODE"] = "1"
    env.setdefault("PYTHONHASHSEED", "0")
    env.update({k: str(v) for k, v in extra.items()})
    return env


def _run_ch_shard(prop, part, fn, shard, nshards, work, seed, tier):
    out = os.path.join(work, f"{part.name}.{fn}.{shard}.json")
    log = os.path.join(work, f"{part.name}.{fn}.{shard}.paths")
    cexdir = os.path.join(work, "cex")
    env = _env({"VF_SCENARIO": part.scenario, "VF_PARAMS": json.dumps(part.params), "VF_PROP": prop,
                "VF_SHARD": shard, "VF_NSHARDS": nshards, "VF_PATHLOG": log, "VF_CEXDIR": cexdir,
                "VERIF_SEED": seed, "VERIF_TIER": tier})
    cmd = [VENV_PY, "-m", "vflib.chdriver", "vflib.harness", fn, str(part.timeout), str(part.path_timeout), out]
    t0 = time.time()
    try:
        p = subprocess.run(cmd, env=env, cwd=ROOT, capture_output=True, text=True, timeout=part.timeout * 1.5 + 60)
        err = p.stderr[-3000:]
    except subprocess.TimeoutExpired:
        err = "hard wall timeout"
    res = None
    if os.path.exists(out):
        with open(out) as f:
            res = json.load(f)
    if res is None:
        res = {"verdict": "harness_error" if err != "hard wall timeout" else "unknown", "error": err, "iterations": 0,
               "solver_calls": 0, "solver_time_s": 0.0}
    res["shard"] = shard
    res["wall_s"] = round(time.time() - t0, 2)
    res["pathlog"] = log
    return res


def _run_smt(prop, part, work, seed, tier):
    out = os.path.join(work, f"{part.name}.smt.json")
    cmd = [VENV_PY, "-m", "vflib.smtpart", part.fn, tier, str(seed), json.dumps(part.params), out]
    try:
        p = subprocess.run(cmd, env=_env({"VERIF_SEED": seed, "VERIF_TIER": tier}), cwd=ROOT, capture_output=True,
                           text=True, timeout=part.timeout)
        err = p.stderr[-3000:]
    except subprocess.TimeoutExpired:
        return {"obligations": 1, "discharged": 0, "inconclusive": [f"{part.name}: wall timeout {part.timeout}s"]}
    if os.path.exists(out):
        with open(out) as f:
            return json.load(f)
    return {"obligations": 0, "discharged": 0, "errors": ["smt part produced no output: " + err]}


def _replay(path):
    p = subprocess.run([PLAIN_PY, "-m", "vflib.replay", path], env=_env({}), cwd=ROOT, capture_output=True, text=True,
                       timeout=600)
    return p.returncode, (p.stdout.strip() or p.stderr.strip())[-1500:]


def _save_replay(prop, cex):
    os.makedirs(os.path.join(OUT, "replays"), exist_ok=True)
    blob = json.dumps(cex, sort_keys=True, default=str)
    path = os.path.join(OUT, "replays", f"{prop}-{hashlib.sha1(blob.encode()).hexdigest()[:12]}.json")
    with open(path, "w") as f:
        f.write(blob)
    return path


def run_property(prop, tier):
    seed = int(os.environ.get("VERIF_SEED", "0") or 0)
    mod = importlib.import_module(f"vflib.props.{prop.lower()}")
    parts = mod.parts(tier)
    if tier == "thorough":
        # the thorough tier contains every scenario of the quick tier: quick parts that have no thorough counterpart of the same name
        # run as they are, next to the deeper ones
        names = {p.name for p in parts}
        parts = parts + [p for p in mod.parts("quick") if p.name not in names]
    if os.environ.get("VF_ONLY"):       # development aid: run only the named parts (evidence then describes a partial run)
        parts = [p for p in parts if p.name in os.environ["VF_ONLY"].split(",")]
    meta = mod.META
    for old in glob.glob(os.path.join(OUT, "replays", f"{prop}-*.json")):
        os.remove(old)     # replay files belong to the run that wrote them
    work = tempfile.mkdtemp(prefix=f"vf-{prop}-", dir=os.environ.get("VF_WORKDIR") or None)
    os.makedirs(os.path.join(work, "cex"))
    t0 = time.time()
    jobs = {}
    results = {p.name: {"part": p, "shards": [], "twin": None, "smt": None} for p in parts}
    with cf.ThreadPoolExecutor(max_workers=NCPU) as ex:
        for p in parts:
            if p.kind == "ch":
                if p.twin:
                    jobs[ex.submit(_run_ch_shard, prop, _twin_of(p), "h_twin", 0, 1, work, seed, tier)] = (p.name, "twin")
                for s in range(p.shards):
                    jobs[ex.submit(_run_ch_shard, prop, p, "h", s, p.shards, work, seed, tier)] = (p.name, "shard")
            else:
                jobs[ex.submit(_run_smt, prop, p, work, seed, tier)] = (p.name, "smt")
        for fut in cf.as_completed(jobs):
            name, kind = jobs[fut]
            r = fut.result()
            if kind == "twin":
                results[name]["twin"] = r
            elif kind == "shard":
                results[name]["shards"].append(r)
            else:
                results[name]["smt"] = r

    # ---------------------------------------------------------------- aggregate
    harness_errors, inconclusive, violations, known_hits = [], [], [], {}
    polluted = {}
    evaluations = 0
    distinct = set()
    samples = []
    obligations = discharged = 0
    solver_calls = 0
    solver_time = 0.0
    part_reports = []
    exhaustive = True
    rnd = random.Random(seed)
    for name, r in results.items():
        p = r["part"]
        rep = {"part": name, "mode": p.mode, "note": p.note}
        if p.kind == "ch":
            rep.update({"scenario": p.scenario, "params": p.params, "shards": p.shards,
                        "per_condition_timeout_s": p.timeout})
            verdicts = [s["verdict"] for s in r["shards"]]
            rep["verdicts"] = {v: verdicts.count(v) for v in set(verdicts)}
            npaths = 0
            part_samples = []
            for s in r["shards"]:
                solver_calls += s.get("solver_calls", 0)
                solver_time += s.get("solver_time_s", 0.0)
                if os.path.exists(s["pathlog"]):
                    with open(s["pathlog"]) as f:
                        for line in f:
                            try:
                                rec = json.loads(line)
                            except ValueError:
                                continue
                            npaths += 1
                            evaluations += 1
                            key = json.dumps(rec["trace"], sort_keys=True)
                            if rec["checked"] > 0 and rec["trace"]:
                                distinct.add(name + key)
                            for k in rec.get("known", []):
                                known_hits[k] = known_hits.get(k, 0) + 1
                            if rec.get("polluted"):
                                polluted[name] = polluted.get(name, 0) + 1
                            if len(part_samples) < 3 or rnd.random() < 0.002:
                                part_samples.append({"part": name, "trace": rec["trace"], "checks": rec["checked"],
                                                     "info": rec.get("info", {})})
                if s["verdict"] == "harness_error":
                    harness_errors.append(f"{name} shard {s['shard']}: {s.get('error', '')[-1500:]}")
                elif s["verdict"] in ("unknown", "pre_unsat"):
                    msgs = "; ".join(m["message"] for m in s.get("messages", []))[:300]
                    inconclusive.append(f"{name} shard {s['shard']}: {s['verdict']} {msgs} {s.get('error','')[:200]}")
            rep["paths"] = npaths
            samples.extend(part_samples[:4])
            if any(v != "confirmed" for v in verdicts):
                exhaustive = False
            rep["exhaustive"] = all(v == "confirmed" for v in verdicts)
            obligations += p.shards
            discharged += verdicts.count("confirmed")
            tw = r["twin"]
            if p.twin:
                solver_calls += tw.get("solver_calls", 0)
                solver_time += tw.get("solver_time_s", 0.0)
                rep["twin"] = tw["verdict"]
                if tw["verdict"] != "refuted":
                    harness_errors.append(f"{name}: reachability twin was not refuted ({tw['verdict']}): vacuous harness? "
                                          + tw.get("error", "")[-800:])
        else:
            s = r["smt"]
            rep.update({k: s.get(k) for k in ("obligations", "discharged", "queries", "bounds", "functions_encoded",
                                              "wall_s", "validation") if k in s})
            obligations += s.get("obligations", 0)
            discharged += s.get("discharged", 0)
            solver_calls += s.get("solver_calls", len(s.get("queries", [])))
            solver_time += s.get("solver_time_s", 0.0)
            evaluations += len(s.get("queries", []))
            for q in s.get("queries", []):
                distinct.add(name + q.get("name", ""))
            samples.extend({"part": name, **x} if isinstance(x, dict) else {"part": name, "obligation": x}
                           for x in s.get("samples", [])[:4])
            for e in s.get("errors", []):
                harness_errors.append(f"{name}: {e}")
            for e in s.get("inconclusive", []):
                inconclusive.append(f"{name}: {e}")
                exhaustive = False
            for c in s.get("counterexamples", []):
                cex = {"property": prop, "kind": "smt", "replay": c["replay"], "case": c["case"], "what": c.get("what"),
                       "fingerprint": c.get("fingerprint"), "part": name}
                path = _save_replay(prop, cex)
                code, msg = _replay(path)
                if code == 1:
                    violations.append((path, msg))
                elif code == 4:
                    kid = msg.split(":")[0].replace("known finding ", "").strip()
                    known_hits[kid] = known_hits.get(kid, 0) + 1
                    os.remove(path)
                else:
                    harness_errors.append(f"{name}: solver counterexample does not replay on the real code ({msg}); case={c['case']}")
                    os.remove(path)
        part_reports.append(rep)

    # counterexamples written by CH harnesses: per failure fingerprint, replay candidates until one reproduces natively
    # (state leaking from an earlier path of the same worker process can make a path fail for reasons its own trace does not
    # contain; such a candidate does not replay and the next one is tried)
    cexdir = os.path.join(work, "cex")
    by_fp = {}
    for fn in sorted(os.listdir(cexdir)):
        if fn.endswith(".polluted"):
            continue
        with open(os.path.join(cexdir, fn)) as f:
            cex = json.load(f)
        if cex.get("harness_exception"):
            harness_errors.append(f"scenario {cex['scenario']} raised: {cex['harness_exception'][-1500:]} trace={cex['trace']}")
            continue
        fp = json.dumps(sorted({x["fingerprint"] for x in cex.get("failures", [])}))
        by_fp.setdefault(fp, []).append(cex)
    for fp, cands in by_fp.items():
        cands.sort(key=lambda c: len(c["trace"]))
        last = None
        for cex in cands[:8]:
            cex["kind"] = "ch"
            path = _save_replay(prop, cex)
            code, msg = _replay(path)
            if code == 1:
                violations.append((path, msg))
                last = None
                break
            os.remove(path)
            last = (cex, code, msg)
        if last is not None:
            cex, code, msg = last
            harness_errors.append(f"{len(cands)} counterexample(s) of {cex['scenario']} with failures {fp} do not replay natively "
                                  f"(tried {min(len(cands), 8)}; last: code {code}: {msg}); trace={cex['trace']}")

    for name, cnt in polluted.items():
        if not violations:
            inconclusive.append(f"{name}: {cnt} path(s) failed only in the presence of state left behind by earlier paths of the same worker "
                                f"process (their own trace does not reproduce in a fresh interpreter): process-level state leaks, not attributable")
    wall = round(time.time() - t0, 2)
    kn = {k["id"]: k for k in known.load() if k["property"] == prop}
    for kid, n in sorted(known_hits.items()):
        print(f"KNOWN-FINDING: property={prop} {kid}: {kn.get(kid, {}).get('what', '')} (hit on {n} explored cases)")
    for path, msg in violations:
        print(f"VIOLATION property={prop} replay={path}")
        print(f"  detail: {msg}")
    for e in harness_errors:
        print(f"HARNESS-ERROR {prop}: {e}")
    for e in inconclusive:
        print(f"INCONCLUSIVE {prop}: {e}")

    level = meta.get("level", "other")
    coverage = {
        "evaluations": max(evaluations, 0),
        "distinct_nontrivial": len(distinct),
        "rule": meta.get("rule", "one evaluation = one explored path of a CrossHair-driven scenario (each path is one "
                                 "feasible assignment of the consulted solver variables) or one SMT query; a case is "
                                 "non-trivial when at least one oracle check ran on it, distinct = distinct answer trace / distinct query"),
        "samples": samples[:12] or [{"note": "no path reached logging"}],
        "exhaustive": bool(exhaustive and not harness_errors),
        "obligations": obligations,
        "discharged": discharged,
        "explanation": meta.get("explanation", ""),
        "functions_encoded": meta.get("functions_encoded", []),
        "bounds": meta.get("bounds", {}).get(tier, meta.get("bounds", {})),
        "outside_claim": meta.get("outside_claim", []),
        "mode": meta.get("mode", ""),
        "symbolic_on_path": meta.get("symbolic_on_path", []),
        "solver_calls": solver_calls,
        "solver_time_s": round(solver_time, 3),
        "parts": part_reports,
        "inconclusive": inconclusive,
        "harness_errors": harness_errors,
        "known_findings_hit": known_hits,
    }
    if level == "translation_validation":
        coverage["programs"] = sum(1 for _ in distinct)
        coverage["disagreements_checked"] = sum(s.get("checks", 0) for s in samples if isinstance(s, dict))
    evidence = {
        "property_id": prop, "tier": tier, "seed": seed, "level": level, "coverage": coverage,
        "assumptions": meta.get("assumptions", []), "wall_s": wall, "violations": len(violations),
    }
    if hasattr(mod, "finish_evidence"):
        mod.finish_evidence(evidence, results)
    os.makedirs(os.path.join(OUT, "evidence"), exist_ok=True)
    with open(os.path.join(OUT, "evidence", f"{prop}.json"), "w") as f:
        json.dump(evidence, f, indent=1, default=str)
    if not os.environ.get("VF_KEEP"):
        shutil.rmtree(work, ignore_errors=True)
    print(f"{prop} {tier}: paths/queries={evaluations} distinct={len(distinct)} obligations={discharged}/{obligations} "
          f"exhaustive={coverage['exhaustive']} violations={len(violations)} wall={wall}s")
    if violations:
        return 1
    if harness_errors:
        return 3
    return 0


def _twin_of(p):
    from vflib.parts import CH
    t = CH(p.name + ".twin", p.scenario, p.params, 1, min(p.timeout, 120), p.path_timeout, p.mode, False)
    return t


def main(argv):
    if os.environ.get("VF_REPO"):
        sys.path.insert(0, os.environ["VF_REPO"])
    if argv[0] == "replay":
        code, msg = importlib.import_module("vflib.replay").replay_file(argv[1])
        print(msg)
        return 1 if code == 1 else 0
    prop, tier = argv[0], (argv[1] if len(argv) > 1 else os.environ.get("VERIF_TIER", "quick"))
    return run_property(prop, tier)


if __name__ == "__main__":
    sys.exit(main(sys.argv[1:]))
