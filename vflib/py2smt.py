"""py2smt — a deliberately small translator from the *current* source AST of pure functions in /repo to z3 terms.

Supported subset (anything else raises `Untranslatable` and the kernel is reported inconclusive, never as a violation):
  statements : a body of `Assign` (single Name target) / `If` / `Return` (paths merged with ite), docstrings, `pass`
  expressions: Name, Constant (int/float/bool/str/None), Attribute on `self` / class constants (read from the live object
               handed in by the caller), BoolOp, Compare (chained), BinOp (+ - * // / & |), UnaryOp (not, -), IfExp,
               len(x), any/all over `map(lambda v: e, xs)` or a generator expression on a bounded collection,
               set(<model>.type.keys())  (resolved by the caller's environment), float(x), int(x)
Value model:
  SetBV   : a set over a universe of K keys = BitVec(K); `&`,`|`,`==`; len = popcount kept in BitVec arithmetic
  IntBV   : small non-negative ints in BitVec(W) (results of len on SetBV)
  z3 Int  : Python ints;   z3 Float64 : Python floats (`int/int` true division = fp.div RNE of the exactly converted ints)
  Bounded : a bounded collection of symbolic items with presence bits (len = number present; iteration = over present)
"""
import ast
import inspect
import textwrap

import z3

F64 = z3.Float64()
RNE = z3.RNE()


class Untranslatable(Exception):
    pass


class SetBV:
    def __init__(self, bv):
        self.bv = bv

    @property
    def k(self):
        return self.bv.size()


class IntBV:
    """non-negative small integer held in a bit-vector (unsigned interpretation, width chosen by the producer)"""

    def __init__(self, bv):
        self.bv = bv


class Bounded:
    """bounded collection: items[i] is part of the collection iff present[i]"""

    def __init__(self, items, present):
        self.items, self.present = items, present


class StrLen:
    """a symbolic string of which only the length matters"""

    def __init__(self, length):
        self.length = length


def popcount(bv, width):
    k = bv.size()
    total = z3.BitVecVal(0, width)
    for i in range(k):
        total = total + z3.ZeroExt(width - 1, z3.Extract(i, i, bv))
    return total


def to_int(v):
    if isinstance(v, IntBV):
        return z3.BV2Int(v.bv, is_signed=False)
    if isinstance(v, bool):
        return z3.IntVal(int(v))
    if isinstance(v, int):
        return z3.IntVal(v)
    if z3.is_expr(v) and v.sort() == z3.IntSort():
        return v
    raise Untranslatable(f"not an int: {v!r}")


def to_fp(v):
    if isinstance(v, float):
        return z3.FPVal(v, F64)
    if isinstance(v, bool):
        raise Untranslatable("bool as float")
    if isinstance(v, int):
        return z3.FPVal(v, F64) if abs(v) < 2 ** 53 else _bad("large int")
    if isinstance(v, IntBV):
        # exact: widths are far below 53 bits; one extra zero bit makes the signed conversion see a non-negative value
        return z3.fpSignedToFP(RNE, z3.ZeroExt(1, v.bv), F64)
    if z3.is_expr(v) and z3.is_fp(v):
        return v
    if z3.is_expr(v) and v.sort() == z3.IntSort():
        return z3.fpSignedToFP(RNE, z3.Int2BV(v, 32), F64)
    raise Untranslatable(f"not a float: {v!r}")


def _bad(msg):
    raise Untranslatable(msg)


def is_fp_like(v):
    return isinstance(v, float) or (z3.is_expr(v) and z3.is_fp(v))


def z3str(val):
    """Python string of a z3 string model value (z3 leaves \\u{..} escapes for NUL / astral characters)"""
    import re
    return re.sub(r"\\u\{([0-9a-fA-F]+)\}", lambda m: chr(int(m.group(1), 16)), val.as_string())


def is_str_like(v):
    return isinstance(v, str) or (z3.is_expr(v) and z3.is_string(v))


def to_str(v):
    if isinstance(v, str):
        return z3.StringVal(v)
    if z3.is_expr(v) and z3.is_string(v):
        return v
    raise Untranslatable(f"not a string: {v!r}")


def replace_all(s, a, b):
    """str.replace_all through the C API (z3py has no wrapper)"""
    ctx = s.ctx
    return z3.SeqRef(z3.Z3_mk_seq_replace_all(ctx.ref(), s.as_ast(), a.as_ast(), b.as_ast()), ctx)


WS_CHARS = " \t\n\r\x0b\x0c"


def ws_star():
    return z3.Star(z3.Union(*[z3.Re(c) for c in WS_CHARS]))


def to_bool(v):
    if v is None:
        return z3.BoolVal(False)
    if isinstance(v, str):
        return z3.BoolVal(bool(v))
    if z3.is_expr(v) and z3.is_string(v):
        return z3.Length(v) > 0
    if isinstance(v, (list, tuple)):
        return z3.BoolVal(bool(v))
    if isinstance(v, bool):
        return z3.BoolVal(v)
    if z3.is_expr(v) and z3.is_bool(v):
        return v
    raise Untranslatable(f"not a bool: {v!r}")


def compare(op, a, b):
    if isinstance(a, SetBV) or isinstance(b, SetBV):
        if not (isinstance(a, SetBV) and isinstance(b, SetBV)):
            raise Untranslatable("set compared with non-set")
        if isinstance(op, ast.Eq):
            return a.bv == b.bv
        if isinstance(op, ast.NotEq):
            return a.bv != b.bv
        raise Untranslatable("set ordering")
    if is_fp_like(a) or is_fp_like(b):
        x, y = to_fp(a), to_fp(b)
        return {ast.Lt: z3.fpLT, ast.LtE: z3.fpLEQ, ast.Gt: z3.fpGT, ast.GtE: z3.fpGEQ, ast.Eq: z3.fpEQ,
                ast.NotEq: lambda p, q: z3.Not(z3.fpEQ(p, q))}[type(op)](x, y)
    if isinstance(a, IntBV) and isinstance(b, IntBV) and a.bv.size() == b.bv.size():
        x, y = a.bv, b.bv
        return {ast.Lt: z3.ULT, ast.LtE: z3.ULE, ast.Gt: z3.UGT, ast.GtE: z3.UGE, ast.Eq: lambda p, q: p == q,
                ast.NotEq: lambda p, q: p != q}[type(op)](x, y)
    x, y = to_int(a), to_int(b)
    return {ast.Lt: lambda p, q: p < q, ast.LtE: lambda p, q: p <= q, ast.Gt: lambda p, q: p > q,
            ast.GtE: lambda p, q: p >= q, ast.Eq: lambda p, q: p == q, ast.NotEq: lambda p, q: p != q}[type(op)](x, y)


class Opaque:
    """a value the translator does not model; using it in a condition makes the function untranslatable"""

    def __init__(self, src):
        self.src = src


class Translator:
    def __init__(self, lenwidth=8, return_mode="value"):
        self.lenwidth = lenwidth
        self.return_mode = return_mode      # "value" | "lineno" (which return statement fires, as an Int)
        self.side = []          # side conditions (e.g. divisor != 0) collected during translation

    # ---------------------------------------------------------------- expressions
    def ev(self, node, env):
        m = getattr(self, "ev_" + type(node).__name__, None)
        if m is None:
            raise Untranslatable(f"unsupported expression {type(node).__name__}: {ast.unparse(node)}")
        return m(node, env)

    def ev_Constant(self, node, env):
        return node.value

    def ev_Name(self, node, env):
        if node.id in env:
            return env[node.id]
        raise Untranslatable(f"unbound name {node.id}")

    def ev_Attribute(self, node, env):
        key = ast.unparse(node)
        if key in env:
            return env[key]
        base = self.ev(node.value, env)
        if z3.is_expr(base) or isinstance(base, (SetBV, IntBV, Bounded, StrLen)):
            raise Untranslatable(f"attribute of symbolic value: {key}")
        try:
            return getattr(base, node.attr)      # live object: class constants, instance attributes
        except AttributeError:
            raise Untranslatable(f"no attribute {key}")

    def ev_BoolOp(self, node, env):
        # Python's short circuit: operands after a concretely deciding one are never evaluated
        vals = []
        is_and = isinstance(node.op, ast.And)
        for v in node.values:
            b = to_bool(self.ev(v, env))
            vals.append(b)
            if (z3.is_false(b) and is_and) or (z3.is_true(b) and not is_and):
                break
        return z3.And(*vals) if is_and else z3.Or(*vals)

    def ev_UnaryOp(self, node, env):
        v = self.ev(node.operand, env)
        if isinstance(node.op, ast.Not):
            return z3.Not(to_bool(v))
        if isinstance(node.op, ast.USub):
            return -to_fp(v) if is_fp_like(v) else -to_int(v)
        raise Untranslatable("unary op")

    def ev_IfExp(self, node, env):
        c = to_bool(self.ev(node.test, env))
        a, b = self.ev(node.body, env), self.ev(node.orelse, env)
        return self.ite(c, a, b)

    def ite(self, c, a, b):
        if is_str_like(a) and is_str_like(b):
            return z3.If(c, to_str(a), to_str(b))
        if isinstance(a, SetBV) and isinstance(b, SetBV):
            return SetBV(z3.If(c, a.bv, b.bv))
        if is_fp_like(a) or is_fp_like(b):
            return z3.If(c, to_fp(a), to_fp(b))
        try:
            return z3.If(c, to_bool(a), to_bool(b))
        except Untranslatable:
            return z3.If(c, to_int(a), to_int(b))

    def ev_Compare(self, node, env):
        left = self.ev(node.left, env)
        conj = []
        for op, right in zip(node.ops, node.comparators):
            r = self.ev(right, env)
            if isinstance(op, (ast.Is, ast.IsNot)):
                if r is None or left is None:
                    same = (left is None and r is None)
                    conj.append(z3.BoolVal(same if isinstance(op, ast.Is) else not same))
                    left = r
                    continue
                raise Untranslatable("identity comparison of non-None values")
            conj.append(compare(op, left, r))
            left = r
        return conj[0] if len(conj) == 1 else z3.And(*conj)

    def ev_BinOp(self, node, env):
        a, b = self.ev(node.left, env), self.ev(node.right, env)
        op = node.op
        if isinstance(a, SetBV) and isinstance(b, SetBV):
            if isinstance(op, ast.BitAnd):
                return SetBV(a.bv & b.bv)
            if isinstance(op, ast.BitOr):
                return SetBV(a.bv | b.bv)
            if isinstance(op, ast.Sub):
                return SetBV(a.bv & ~b.bv)
            if isinstance(op, ast.BitXor):
                return SetBV(a.bv ^ b.bv)
            raise Untranslatable("set operator")
        if isinstance(op, ast.Add) and (is_str_like(a) or is_str_like(b)):
            return z3.Concat(to_str(a), to_str(b))
        if isinstance(op, ast.Div):
            x, y = to_fp(a), to_fp(b)
            self.side.append(("divisor_nonzero", z3.Not(z3.fpIsZero(y))))
            return z3.fpDiv(RNE, x, y)
        if is_fp_like(a) or is_fp_like(b):
            x, y = to_fp(a), to_fp(b)
            if isinstance(op, ast.Add):
                return z3.fpAdd(RNE, x, y)
            if isinstance(op, ast.Sub):
                return z3.fpSub(RNE, x, y)
            if isinstance(op, ast.Mult):
                return z3.fpMul(RNE, x, y)
            raise Untranslatable("float operator")
        if isinstance(a, (int, bool)) and isinstance(b, (int, bool)) and not isinstance(op, ast.Div):
            return {ast.Add: lambda p, q: p + q, ast.Sub: lambda p, q: p - q, ast.Mult: lambda p, q: p * q,
                    ast.FloorDiv: lambda p, q: p // q}[type(op)](a, b)
        x, y = to_int(a), to_int(b)
        if isinstance(op, ast.Add):
            return x + y
        if isinstance(op, ast.Sub):
            return x - y
        if isinstance(op, ast.Mult):
            return x * y
        if isinstance(op, ast.FloorDiv):
            self.side.append(("divisor_nonzero", y != 0))
            return x / y   # z3 Int division rounds toward -inf for positive divisors, like Python's //
        raise Untranslatable("int operator")

    def ev_JoinedStr(self, node, env):
        parts = []
        for v in node.values:
            if isinstance(v, ast.Constant):
                parts.append(z3.StringVal(v.value))
            elif isinstance(v, ast.FormattedValue):
                if v.conversion != -1 or v.format_spec is not None:
                    raise Untranslatable("f-string conversion / format spec")
                parts.append(to_str(self.ev(v.value, env)))
            else:
                raise Untranslatable("f-string part")
        if not parts:
            return z3.StringVal("")
        return parts[0] if len(parts) == 1 else z3.Concat(*parts)

    def fresh_str(self, hint):
        self._fresh = getattr(self, "_fresh", 0) + 1
        return z3.String(f"{hint}!{self._fresh}")

    def str_method(self, obj, name, args):
        o = to_str(obj)
        if name == "join" and len(args) == 1 and isinstance(args[0], (list, tuple)):
            items = [to_str(x) for x in args[0]]
            if not items:
                return z3.StringVal("")
            parts = [items[0]]
            for it in items[1:]:
                parts += [o, it]
            return parts[0] if len(parts) == 1 else z3.Concat(*parts)
        if name == "strip" and not args:
            # contract of str.strip(): s = l . core . r, l and r whitespace, core neither starts nor ends with whitespace
            l, core, r = self.fresh_str("l"), self.fresh_str("core"), self.fresh_str("r")
            ws1 = z3.Union(*[z3.Re(c) for c in WS_CHARS])
            anything = z3.Full(z3.ReSort(z3.StringSort()))
            self.side.append(("strip_contract", z3.And(
                o == z3.Concat(l, core, r), z3.InRe(l, ws_star()), z3.InRe(r, ws_star()),
                z3.Not(z3.InRe(core, z3.Concat(ws1, anything))), z3.Not(z3.InRe(core, z3.Concat(anything, ws1))))))
            return core
        if name == "replace" and len(args) == 2:
            if getattr(self, "abstract_replace", False) and isinstance(args[0], str) and isinstance(args[1], str) and args[0]:
                # Regular over-approximation of the image of replace_all with constant pattern P and replacement R:
                #   y in NOP . (R . NOP)*   where NOP = strings without an occurrence of P.
                # Every real result lies in it (pieces between the replaced occurrences contain no P), so `unsat` under
                # this abstraction is sound; a `sat` answer may be spurious and is reported as inconclusive.
                anything = z3.Full(z3.ReSort(z3.StringSort()))
                nop = z3.Complement(z3.Concat(anything, z3.Re(args[0]), anything))
                y = self.fresh_str("replaced")
                self.replaced_vars = getattr(self, "replaced_vars", []) + [(y, o)]
                self.side.append(("replace_image_superset", z3.InRe(y, z3.Concat(nop, z3.Star(z3.Concat(z3.Re(args[1]), nop))))))
                self.abstractions = getattr(self, "abstractions", []) + [f"replace({args[0]!r}, {args[1]!r}) -> image superset"]
                return y
            return replace_all(o, to_str(args[0]), to_str(args[1]))
        raise Untranslatable(f"string method {name}")

    def ev_Lambda(self, node, env):
        return ("lambda", node, env)

    def _apply(self, fn, arg):
        if isinstance(fn, tuple) and fn[0] == "lambda":
            _, node, env = fn
            if len(node.args.args) != 1:
                raise Untranslatable("lambda arity")
            env2 = dict(env)
            env2[node.args.args[0].arg] = arg
            return self.ev(node.body, env2)
        if callable(fn):
            return fn(arg)
        raise Untranslatable("cannot apply")

    def _quantify(self, kind, coll, body):
        if isinstance(coll, Bounded):
            terms = []
            for item, pres in zip(coll.items, coll.present):
                v = to_bool(body(item))
                terms.append(z3.And(pres, v) if kind == "any" else z3.Implies(pres, v))
            return z3.Or(*terms) if kind == "any" else z3.And(*terms)
        if isinstance(coll, (list, tuple)):
            terms = [to_bool(body(x)) for x in coll]
            if not terms:
                return z3.BoolVal(kind == "all")
            return z3.Or(*terms) if kind == "any" else z3.And(*terms)
        raise Untranslatable("iteration over unsupported collection")

    def ev_Call(self, node, env):
        whole = ast.unparse(node)
        if whole in env:
            return env[whole]
        fname = ast.unparse(node.func)
        if fname in env and callable(env[fname]) and not isinstance(env[fname], type):
            return env[fname](*[self.ev(a, env) for a in node.args])
        if fname == "len" and len(node.args) == 1:
            v = self.ev(node.args[0], env)
            if isinstance(v, SetBV):
                return IntBV(popcount(v.bv, self.lenwidth))
            if isinstance(v, Bounded):
                return z3.Sum(*[z3.If(p, 1, 0) for p in v.present])
            if isinstance(v, StrLen):
                return v.length
            if isinstance(v, (str, list, tuple, set, frozenset, dict)):
                return len(v)
            raise Untranslatable("len of " + repr(v))
        if fname in ("any", "all") and len(node.args) == 1:
            arg = node.args[0]
            if isinstance(arg, ast.Call) and ast.unparse(arg.func) == "map" and len(arg.args) == 2:
                fn = self.ev(arg.args[0], env)
                coll = self.ev(arg.args[1], env)
                return self._quantify(fname, coll, lambda x: self._apply(fn, x))
            if isinstance(arg, ast.GeneratorExp) and len(arg.generators) == 1 and not arg.generators[0].ifs:
                g = arg.generators[0]
                if not isinstance(g.target, ast.Name):
                    raise Untranslatable("generator target")
                coll = self.ev(g.iter, env)

                def body(x):
                    env2 = dict(env)
                    env2[g.target.id] = x
                    return self.ev(arg.elt, env2)
                return self._quantify(fname, coll, body)
            raise Untranslatable("any/all over unsupported iterable")
        if fname == "set" and len(node.args) == 1:
            key = ast.unparse(node)
            if key in env:
                return env[key]
            v = self.ev(node.args[0], env)
            if isinstance(v, SetBV):
                return v
            raise Untranslatable("set(...) of " + ast.unparse(node.args[0]))
        if fname == "float" and len(node.args) == 1:
            return to_fp(self.ev(node.args[0], env))
        if fname == "int" and len(node.args) == 1:
            return to_int(self.ev(node.args[0], env))
        if fname == "frozenset" and not node.args:
            return ("empty_frozenset",)
        # method call on a live object whose body we can translate recursively: obj.method(args)
        if isinstance(node.func, ast.Attribute):
            obj = self.ev(node.func.value, env)
            if is_str_like(obj):
                return self.str_method(obj, node.func.attr, [self.ev(a, env) for a in node.args])
            if isinstance(obj, dict) and node.func.attr == "get" and 1 <= len(node.args) <= 2:
                key = self.ev(node.args[0], env)
                default = self.ev(node.args[1], env) if len(node.args) == 2 else None
                if z3.is_expr(key):
                    raise Untranslatable("symbolic dict key")
                return obj.get(key, default)
            if not z3.is_expr(obj) and not isinstance(obj, (SetBV, IntBV, Bounded, StrLen, tuple)):
                meth = getattr(type(obj), node.func.attr, None)
                if meth is not None and inspect.isfunction(meth):
                    args = [self.ev(a, env) for a in node.args]
                    return self.call_function(meth, [obj] + args)
        raise Untranslatable(f"unsupported call {ast.unparse(node)}")

    # ---------------------------------------------------------------- statements
    def run_body(self, stmts, env):
        """returns the returned value (or None if the body falls through), merging paths with ite."""
        for i, st in enumerate(stmts):
            if isinstance(st, ast.Expr) and isinstance(st.value, ast.Constant):
                continue
            if isinstance(st, ast.Pass):
                continue
            if isinstance(st, ast.Return):
                if self.return_mode == "lineno":
                    return z3.IntVal(st.lineno)
                return self.ev(st.value, env) if st.value is not None else None
            if isinstance(st, (ast.Assign, ast.AnnAssign)):
                target = st.targets[0] if isinstance(st, ast.Assign) else st.target
                if isinstance(st, ast.Assign) and len(st.targets) != 1:
                    raise Untranslatable("multiple assignment targets")
                if isinstance(target, ast.Tuple) and all(isinstance(e, ast.Name) for e in target.elts):
                    for e in target.elts:       # unpacking: values come from the caller's environment or stay opaque
                        if e.id not in getattr(self, "frozen", ()):
                            env[e.id] = Opaque(ast.unparse(st.value))
                    continue
                key = target.id if isinstance(target, ast.Name) else ast.unparse(target)
                if not isinstance(target, (ast.Name, ast.Attribute)):
                    raise Untranslatable("assignment target")
                if key in getattr(self, "frozen", ()):
                    continue        # value supplied by the caller's environment
                try:
                    env[key] = self.ev(st.value, env)
                except Untranslatable:
                    env[key] = Opaque(ast.unparse(st.value))
                continue
            if isinstance(st, ast.With):
                return self.run_body(list(st.body) + stmts[i + 1:], env)
            if isinstance(st, ast.AugAssign) and isinstance(st.target, ast.Name) and isinstance(st.op, ast.Add):
                cur = env[st.target.id]
                val = self.ev(st.value, env)
                env[st.target.id] = z3.Concat(to_str(cur), to_str(val)) if (is_str_like(cur) or is_str_like(val)) else to_int(cur) + to_int(val)
                continue
            if isinstance(st, ast.If):
                c = to_bool(self.ev(st.test, env))
                rest = stmts[i + 1:]
                env_a, env_b = dict(env), dict(env)
                ra = self.run_body(list(st.body) + rest, env_a)
                rb = self.run_body(list(st.orelse) + rest, env_b)
                # variables assigned on both paths are merged (needed by callers that read env afterwards)
                for k in set(env_a) | set(env_b):
                    if k in env_a and k in env_b and env_a[k] is not env_b[k]:
                        try:
                            env[k] = self.ite(c, env_a[k], env_b[k])
                        except Exception:
                            env.pop(k, None)
                    elif k in env_a and k in env_b:
                        env[k] = env_a[k]
                if ra is None and rb is None:
                    return None
                if ra is None or rb is None:
                    raise Untranslatable("path without return value")
                return self.ite(c, ra, rb)
            raise Untranslatable(f"unsupported statement {type(st).__name__}: {ast.unparse(st)[:80]}")
        return None

    def call_function(self, fn, args, extra_env=None):
        tree = function_ast(fn)
        params = [a.arg for a in tree.args.args]
        if len(params) != len(args):
            raise Untranslatable(f"arity of {fn.__qualname__}")
        env = dict(extra_env or {})
        g = getattr(fn, "__globals__", {})
        for name in {n.id for n in ast.walk(tree) if isinstance(n, ast.Name)}:
            if name in g and name not in env and not inspect.ismodule(g[name]):
                env[name] = g[name]
        env.update(zip(params, args))
        self.last_env = env
        return self.run_body(tree.body, env)


def function_ast(fn):
    src = textwrap.dedent(inspect.getsource(fn))
    tree = ast.parse(src).body[0]
    if isinstance(tree, ast.Assign) and isinstance(tree.value, ast.Lambda):
        lam = tree.value
        f = ast.FunctionDef(name="<lambda>", args=lam.args, body=[ast.Return(value=lam.body)], decorator_list=[])
        return f
    if not isinstance(tree, ast.FunctionDef):
        raise Untranslatable("not a function definition")
    return tree


# -------------------------------------------------------------------------------------------------- solving helpers
def solve(constraints, timeout_s=120, name="q", logic=None, cross_check=False, workdir=None):
    """-> dict(result='sat'|'unsat'|'unknown', model=z3 model or None, time_s, engine, cvc5=...)"""
    import time
    s = z3.Solver()
    s.set("timeout", int(timeout_s * 1000))
    for c in constraints:
        s.add(c)
    t0 = time.time()
    r = s.check()
    out = {"name": name, "result": str(r), "time_s": round(time.time() - t0, 3), "engine": "z3 " + z3.get_version_string()}
    out["model"] = s.model() if str(r) == "sat" else None
    if cross_check:
        out["cvc5"] = cvc5_check(s, timeout_s, logic, workdir, name)
    return out


def cvc5_check(solver, timeout_s, logic, workdir, name):
    import os
    import subprocess
    import tempfile
    import time
    txt = solver.to_smt2()
    if logic:
        txt = f"(set-logic {logic})\n" + txt
    d = workdir or tempfile.gettempdir()
    path = os.path.join(d, f"vf_{name}_{os.getpid()}.smt2")
    with open(path, "w") as f:
        f.write(txt)
    t0 = time.time()
    try:
        p = subprocess.run(["/usr/bin/cvc5", f"--tlimit={int(timeout_s * 1000)}", path], capture_output=True, text=True,
                           timeout=timeout_s + 10)
        o = (p.stdout + p.stderr).strip()
    except subprocess.TimeoutExpired:
        o = "timeout"
    finally:
        try:
            os.remove(path)
        except OSError:
            pass
    res = "error" if "(error" in o else (o.split()[0] if o else "unknown")
    return {"result": res, "time_s": round(time.time() - t0, 3), "raw": o[:200], "engine": "cvc5 1.0.x binary"}
