"""C09 — string pseudo-types are detected soundly and convert losslessly.

  CH-P  first match   : stub pseudo-types whose parsers accept iff a solver bit, any registration order (any parser set)
  CH-E  resolve       : arbitrary `replaces` relation (solver bits) x argument subsets; result sound w.r.t. its closure
  SMT-S replaces      : every shipped replace edge is a language inclusion (regex models of int()/float(), validated)
  CH-E  grammar       : strings from a structured grammar (signs, exponents, underscores, whitespace, case variants, ISO
                        fragments) through the real registry: detection = first accepting parser; parse/render/parse
  CH-E  disabled      : removed types never appear in IR, relation or emitted text
  CH-P  bool          : BooleanString round trip on a *symbolic* string (CrossHair string theory), length <= 5
"""
import itertools
import math

from vflib.parts import CH, SMT


# ------------------------------------------------------------------------------------------------ first match (stubs)
def scen_first_match(ch, params, out):
    from json_to_models.dynamic_typing import DDict, DList, DUnion, StringLiteral, StringSerializable, StringSerializableRegistry
    from json_to_models.generator import MetadataGenerator
    k = params.get("types", 4)
    orders = [p for r in range(0, k + 1) for p in itertools.permutations(range(k), r)]
    order = ch.choose("registration_order", orders, shard=True)
    context = ch.choose("context", ["single_string", "two_strings_in_a_list", "two_strings_as_dict_values"])
    memo = {}

    def bit(i, atom):
        if (i, atom) not in memo:
            memo[(i, atom)] = ch.flag(f"type{i}.accepts({atom})")
        return memo[(i, atom)]

    def mk(i):
        class Stub(StringSerializable, str):
            actual_type = str

            @classmethod
            def to_internal_value(cls, value):
                if not bit(i, value):
                    raise ValueError("rejected")
                return value
        Stub.__name__ = Stub.__qualname__ = f"Stub{i}"      # distinct classes must print differently (types are de-duplicated by str())
        return Stub
    types = {i: mk(i) for i in range(k)}
    reg = StringSerializableRegistry()
    for i in order:
        reg.add(cls=types[i])
    gen = MetadataGenerator(str_types_registry=reg, dict_keys_fields=["f"])
    atoms = ["atomA"] if context == "single_string" else ["atomA", "atomB"]
    value = atoms[0] if context == "single_string" else (list(atoms) if context == "two_strings_in_a_list" else {"k1": atoms[0], "k2": atoms[1]})
    try:
        with ch.traced():
            t = gen._detect_type(value, False) if context == "two_strings_as_dict_values" else gen._detect_type(value)
    except Exception as e:
        out.fail("detect_raises", f"{type(e).__name__}: {e} order={order} context={context}", "detect_raises")
        return
    # oracle: every string is classified on its own, by the first accepting type in registration order (same memoised bits)
    expected_types, expected_lits = set(), set()
    for a in atoms:
        hit = None
        for i in order:
            if bit(i, a):
                hit = types[i]
                break
        if hit is None:
            expected_lits.add(a)
        else:
            expected_types.add(hit.__name__)
    out.info = {"order": list(order), "context": context, "accepts": {f"{i}:{a}": v for (i, a), v in memo.items()}}
    ctx = lambda: f"order={order} context={context} accepts={ {f'{i}:{a}': v for (i, a), v in memo.items()} }"
    if context == "two_strings_in_a_list":
        if not out.check(isinstance(t, DList), "list_lost", lambda: f"{t} ({ctx()})", "list_lost"):
            return
        t = t.type
    elif context == "two_strings_as_dict_values":
        if not out.check(isinstance(t, DDict), "dict_lost", lambda: f"{t} ({ctx()})", "dict_lost"):
            return
        t = t.type
    members = list(t.types) if isinstance(t, DUnion) else [t]
    got_types = {m.__name__ for m in members if isinstance(m, type)}
    got_lits = set().union(*[set(m.literals) for m in members if isinstance(m, StringLiteral)]) if any(isinstance(m, StringLiteral) for m in members) else set()
    out.check(got_types == expected_types, "not_first_accepting_type",
              lambda: f"detected pseudo-types {sorted(got_types)}, expected (first accepting per string) {sorted(expected_types)} ({ctx()})", "not_first_accepting_type")
    out.check(got_lits == expected_lits, "unaccepted_string_not_literal",
              lambda: f"literals {sorted(got_lits)}, expected {sorted(expected_lits)} ({ctx()})", "unaccepted_string_not_literal")


# ------------------------------------------------------------------------------------------------ resolve
def scen_resolve(ch, params, out):
    from json_to_models.dynamic_typing import StringSerializable, StringSerializableRegistry
    k = params.get("types", 3)
    subsets = [s for r in range(1, k + 1) for s in itertools.combinations(range(k), r)]
    args = ch.choose("arguments", subsets, shard=True)
    types = [type(f"T{i}", (StringSerializable, str), {"actual_type": str}) for i in range(k)]
    reg = StringSerializableRegistry()
    for t in types:
        reg.add(cls=t)
    edges = set()
    for i in range(k):
        for j in range(k):
            if i != j and ch.flag(f"replaces(T{i}->T{j})"):
                edges.add((i, j))
                reg.replaces.add((types[i], types[j]))
    reach = {i: {i} for i in range(k)}
    changed = True
    while changed:
        changed = False
        for (i, j) in edges:
            for a in range(k):
                if i in reach[a] and j not in reach[a]:
                    reach[a].add(j)
                    changed = True
    out.info = {"args": list(args), "edges": sorted(edges)}
    ctx = lambda: f"args={['T%d' % a for a in args]} replaces={sorted(edges)}"
    try:
        res = reg.resolve(*[types[a] for a in args])
    except Exception as e:
        out.fail("resolve_raises", f"{type(e).__name__}: {e} ({ctx()})", "resolve_raises")
        return
    res_idx = sorted(types.index(t) for t in res)
    out.check(len(res_idx) >= 1, "resolve_empty", lambda: f"empty result ({ctx()})", "resolve_empty")
    out.check(set(res_idx) <= set(args), "resolve_invents_type", lambda: f"result {res_idx} not among the arguments ({ctx()})", "resolve_invents_type")
    if len(res_idx) == 1:
        T = res_idx[0]
        missing = [a for a in args if T not in reach[a]]
        out.check(not missing, "resolve_unsound",
                  lambda: f"resolved to T{T}, which does not cover T{missing} through the replace relation ({ctx()})", "resolve_unsound")
    # the union simplifier turns an unresolved result into str: make sure that is what happens end to end
    from json_to_models.dynamic_typing import DUnion
    from json_to_models.generator import MetadataGenerator
    if len(args) >= 2:
        gen = MetadataGenerator(str_types_registry=reg)
        try:
            o = gen.optimize_type(DUnion(*[types[a] for a in args]))
        except Exception as e:
            out.fail("optimize_raises", f"{type(e).__name__}: {e} ({ctx()})", "optimize_raises")
            return
        if o is not str:
            ok = o in types and all(types.index(o) in reach[a] for a in args)
            out.check(ok, "union_of_pseudo_types_unsound", lambda: f"Union of arguments simplified to {o} ({ctx()})", "union_of_pseudo_types_unsound")


# ------------------------------------------------------------------------------------------------ SMT-S: replace edges
def _regex_models():
    import z3
    R = z3
    D = R.Range("0", "9")
    digits = R.Concat(D, R.Star(R.Concat(R.Option(R.Re("_")), D)))
    ws = R.Star(R.Union(*[R.Re(c) for c in " \t\n\r\x0b\x0c"]))
    sign = R.Option(R.Union(R.Re("+"), R.Re("-")))
    INT10 = R.Concat(ws, sign, digits, ws)
    exp = R.Concat(R.Union(R.Re("e"), R.Re("E")), sign, digits)
    mant = R.Union(R.Concat(digits, R.Option(R.Concat(R.Re("."), R.Option(digits)))), R.Concat(R.Re("."), digits))

    def ci(word):
        return R.Concat(*[R.Union(R.Re(c.lower()), R.Re(c.upper())) for c in word])
    special = R.Union(ci("inf"), ci("infinity"), ci("nan"))
    FLOAT = R.Concat(ws, sign, R.Union(R.Concat(mant, R.Option(exp)), special), ws)
    BOOL = R.Union(ci("true"), ci("false"))
    return {"IntString": INT10, "FloatString": FLOAT, "BooleanString": BOOL}


def replay_inclusion(case):
    from json_to_models.dynamic_typing import registry
    import json_to_models.dynamic_typing as dt
    from vflib.oracles import str_accepts
    a, b, s = getattr(dt, case["narrow"]), getattr(dt, case["wide"]), case["string"]
    if (a, b) in registry.replaces and str_accepts(a, s) and not str_accepts(b, s):
        return f"replace edge {case['narrow']} -> {case['wide']} is unsound: {s!r} is accepted by the former only"
    return None


def kernel_replaces(tier, seed, params):
    import random
    import z3
    from json_to_models.dynamic_typing import StringSerializableRegistry, register_datetime_classes, registry
    import json_to_models.dynamic_typing as dt
    from vflib.oracles import str_accepts
    res = {"obligations": 0, "discharged": 0, "queries": [], "counterexamples": [], "inconclusive": [], "errors": [],
           "functions_encoded": ["string_serializable.registry.replaces (live)", "register_datetime_classes (edges it adds)"],
           "bounds": {"strings": "ASCII strings of any length (z3 sequence/regex theory); non-ASCII digits and whitespace outside the models"},
           "samples": [], "solver_time_s": 0.0}
    models = _regex_models()
    # ---- validate the regex models against the ENVIRONMENT (CPython's int() / float() / the two boolean words), and, separately,
    #      check on the same solver-generated strings that the repository's parsers accept exactly what the environment function accepts
    def env_accepts(name, text):
        try:
            if name == "IntString":
                int(text)
            elif name == "FloatString":
                float(text)
            else:
                return text.lower() in ("true", "false")
            return True
        except ValueError:
            return False
    from vflib.py2smt import z3str
    rnd = random.Random(seed)
    npts, bad = 0, 0
    s = z3.String("s")
    parser_differs = {}
    for name, L in models.items():
        T = getattr(dt, name)
        for want in (True, False):
            sol = z3.Solver()
            sol.set("timeout", 20000)
            sol.add(z3.InRe(s, L) if want else z3.Not(z3.InRe(s, L)))
            sol.add(z3.InRe(s, z3.Star(z3.Union(z3.Range("0", "9"), *[z3.Re(c) for c in "+-._eEinfatyINFATYrusl \t\n"]))))
            for _ in range(params.get("validation_per_class", 25)):
                sol.push()
                sol.add(z3.Length(s) == rnd.randint(0, 7))
                r = sol.check()
                if str(r) != "sat":
                    sol.pop()
                    continue
                val_py = z3str(sol.model().eval(s, model_completion=True))
                sol.pop()
                sol.add(s != z3.StringVal(val_py))
                npts += 1
                if env_accepts(name, val_py) != want:
                    bad += 1
                    res["errors"].append(f"environment model of {name} wrong on {val_py!r}: model says {want}, CPython says {not want}")
                elif str_accepts(T, val_py) != want:
                    parser_differs.setdefault(name, []).append(val_py)
    res["validation"] = {"points": npts, "disagreements": bad, "repo_parser_differs_from_builtin": {k: v[:5] for k, v in parser_differs.items()}}
    if bad:
        return res
    # ---- the edges: shipped default registry and the registry after register_datetime_classes
    r2 = StringSerializableRegistry()
    for t in registry.types:
        r2.types.append(t)
    r2.replaces |= set(registry.replaces)
    register_datetime_classes(r2)
    edges = sorted({(a.__name__, b.__name__) for a, b in set(registry.replaces) | set(r2.replaces)})
    for a, b in edges:
        res["obligations"] += 1
        if a not in models or b not in models:
            res["inconclusive"].append(f"edge {a}->{b}: no language model for this type (date/time parsers are outside the encoding)")
            continue
        import time
        sol = z3.Solver()
        sol.set("timeout", 60000)
        sol.add(z3.InRe(s, models[a]), z3.Not(z3.InRe(s, models[b])))
        t0 = time.time()
        r = str(sol.check())
        dt_ = round(time.time() - t0, 3)
        res["solver_time_s"] += dt_
        res["queries"].append({"name": f"L({a}) subset L({b})", "result": r, "time_s": dt_, "engine": "z3 " + z3.get_version_string()})
        tw = z3.Solver()
        tw.add(z3.InRe(s, models[a]))
        if str(tw.check()) != "sat":
            res["errors"].append(f"vacuity: L({a}) empty")
        if r == "unsat":
            res["discharged"] += 1
        elif r == "sat":
            from vflib.py2smt import z3str
            val = z3str(sol.model().eval(s, model_completion=True))
            res["counterexamples"].append({"replay": "vflib.props.c09:replay_inclusion", "case": {"narrow": a, "wide": b, "string": val},
                                           "what": f"{val!r} in L({a}) but not in L({b})", "fingerprint": f"replace_edge_unsound:{a}->{b}"})
        else:
            res["inconclusive"].append(f"edge {a}->{b}: {r}")
    for name, strs in parser_differs.items():
        # the repository's parser is not the plain builtin: the language proof above is about another function.
        # Look for a concrete witness against an edge among the strings found; otherwise the edge proofs are inconclusive.
        witness = None
        for a, b in edges:
            if name in (a, b):
                for cand in strs + ["1_0", " 1", "1 ", "+1", "0_0", "1e1"]:
                    if str_accepts(getattr(dt, a), cand) and not str_accepts(getattr(dt, b), cand):
                        witness = (a, b, cand)
                        break
            if witness:
                break
        if witness:
            res["counterexamples"].append({"replay": "vflib.props.c09:replay_inclusion", "case": {"narrow": witness[0], "wide": witness[1], "string": witness[2]},
                                           "what": f"{witness[2]!r} accepted by {witness[0]} but not by {witness[1]}", "fingerprint": f"replace_edge_unsound:{witness[0]}->{witness[1]}"})
            res["discharged"] = max(0, res["discharged"] - 1)
        else:
            res["inconclusive"].append(f"{name}: the parser differs from the builtin it used to delegate to (e.g. on {strs[:3]}); the language proof does not cover it")
    res["samples"] = [{"obligation": f"InRe(s, L({a})) and not InRe(s, L({b})) unsat", "edge": [a, b]} for a, b in edges] or \
                     [{"obligation": "no replace edges registered"}]
    if not edges:
        res["obligations"] += 1
        res["discharged"] += 1
    return res


# ------------------------------------------------------------------------------------------------ grammar
def sentinel_times():
    """date/time constants that the date/time detection code itself uses (module-level datetime objects and literal
    datetime(...)/time(...) calls in its source): strings built from them are the natural boundary cases of that code"""
    import ast as _ast
    import datetime as _dt
    import inspect as _inspect
    import json_to_models.dynamic_typing.string_datetime as mod
    found = set()

    def add(x):
        if isinstance(x, _dt.datetime):
            found.add((x.year, x.month, x.day, x.hour, x.minute, x.second))
        elif isinstance(x, _dt.time):
            found.add((2018, 12, 31, x.hour, x.minute, x.second))
    for v in vars(mod).values():
        if isinstance(v, (tuple, list)):
            for x in v:
                add(x)
        else:
            add(v)
    try:
        for node in _ast.walk(_ast.parse(_inspect.getsource(mod))):
            if isinstance(node, _ast.Call) and _ast.unparse(node.func) in ("datetime", "time", "datetime.datetime", "datetime.time"):
                args = [a.value for a in node.args if isinstance(a, _ast.Constant) and isinstance(a.value, int)]
                if _ast.unparse(node.func).endswith("datetime") and len(args) >= 3:
                    args = (args + [0, 0, 0])[:6]
                    found.add(tuple(args))
                elif len(args) >= 1:
                    args = (args + [0, 0])[:3]
                    found.add((2018, 12, 31) + tuple(args))
    except Exception:
        pass
    return sorted(found)


def grammar_string(ch):
    fam = ch.choose("family", ["int", "float", "bool", "date", "time", "datetime", "word"], shard=True)
    pad_l, pad_r = ch.choose("padding", [("", ""), (" ", ""), ("", " "), ("\t", "\n")])
    if fam == "int":
        sign = ch.choose("sign", ["", "+", "-"])
        body = ch.choose("digits", ["0", "7", "12", "007", "1_000", "1__0", "_1", "1_", "١٢", "1e3", "0x1f", "12345678901234567890123"])
        core = sign + body
    elif fam == "float":
        sign = ch.choose("sign", ["", "+", "-"])
        body = ch.choose("mantissa", ["1.5", ".5", "5.", "1_0.2_5", "1e5", "1E-5", "1.e+3", "nan", "NaN", "inf", "Infinity", "-.e1", "1.5f", "1,5", "٣.٥"])
        core = sign + body
    elif fam == "bool":
        core = ch.choose("word", ["true", "false", "True", "FALSE", "tRuE", "yes", "1", "truee", "t"])
    elif fam == "date":
        dates = ["2018-12-31", "2018-02-29", "2018-1-2", "20181231", "2018-12", "2018", "31.12.2018", "2018-13-01", "0001-01-01"]
        dates += [f"{y:04d}-{mo:02d}-{d:02d}" for (y, mo, d, *_rest) in sentinel_times()]
        core = ch.choose("date", list(dict.fromkeys(dates)))
    elif fam == "time":
        hm = ch.choose("hm", ["12:58", "00:00", "23:59", "24:00", "7:05", "12:60"])
        sec = ch.choose("sec", ["", ":12", ":59", ":60"])
        frac = ch.choose("frac", ["", ".1", ".123", ".123456", ".000001", ".1234567"]) if sec else ""
        tz = ch.choose("tz", ["", "Z", "+03:00"])
        core = hm + sec + frac + tz
    elif fam == "datetime":
        d = ch.choose("date", ["2018-12-31", "2018-02-28", "20181231"])
        sep = ch.choose("sep", ["T", " ", "t"])
        times = ["12:58:12", "12:58", "12:58:12.123456", "12:58:12.000001", "00:00:00", "12:58:12Z", "12:58:12+03:00", "12:58:12.5-01:30"]
        for (_y, _mo, _d, h, mi, sec) in sentinel_times():
            times += [f"{h:02d}:{mi:02d}", f"{h:02d}", f"{h:02d}:{mi:02d}:{sec:02d}", f"{h:02d}{mi:02d}", f"{h:02d}:{mi:02d}Z"]
        t = ch.choose("time", list(dict.fromkeys(times)))
        core = d + sep + t
    else:
        core = ch.choose("word", ["abc", "", "12abc", "none", "null", "e5", "--1", "+", "."])
    return fam, pad_l + core + pad_r


def values_equal(a, b):
    if isinstance(a, float) and isinstance(b, float) and math.isnan(a) and math.isnan(b):
        return True
    return a == b and type(a) is type(b)


def scen_grammar(ch, params, out):
    from json_to_models.dynamic_typing import StringLiteral, StringSerializableRegistry, register_datetime_classes
    from json_to_models.dynamic_typing import BooleanString, FloatString, IntString
    from json_to_models.generator import MetadataGenerator
    fam, s = grammar_string(ch)
    with_dt = True if fam in ("date", "time", "datetime") else ch.flag("datetime_types_registered")
    reg = StringSerializableRegistry()
    reg.add(cls=IntString)
    reg.add(replace_types=(IntString,), cls=FloatString)
    reg.add(cls=BooleanString)
    if with_dt:
        register_datetime_classes(reg)
    gen = MetadataGenerator(str_types_registry=reg)
    out.info = {"family": fam, "string": s, "datetime": with_dt}
    try:
        t = gen._detect_type(s)
    except Exception as e:
        out.fail("detect_raises", f"{type(e).__name__}: {e} on {s!r}", f"detect_raises:{type(e).__name__}")
        return

    def accepts(T):
        try:
            return True, T.to_internal_value(s)
        except ValueError:
            return False, None
    expected, parsed = None, None
    for T in reg:
        try:
            ok, v = accepts(T)
        except Exception as e:
            out.fail("parser_raises_non_valueerror", f"{T.__name__}.to_internal_value({s!r}) raised {type(e).__name__}: {e}",
                     f"parser_raises:{T.__name__}:{type(e).__name__}")
            return
        if ok:
            expected, parsed = T, v
            break
    for (narrow, wide) in reg.replaces:
        okn, _ = accepts(narrow)
        if okn:
            okw, _ = accepts(wide)
            out.check(okw, "replace_edge_unsound", lambda: f"{s!r} is accepted by {narrow.__name__} but rejected by {wide.__name__}, which is registered as covering it",
                      f"replace_edge_unsound:{narrow.__name__}->{wide.__name__}")
    if expected is None:
        ok = isinstance(t, StringLiteral) and (set(t.literals) == {s} or (len(s) >= 20 and t.overflowed))
        out.check(ok, "unaccepted_string_not_literal", lambda: f"{s!r} detected as {t}", "unaccepted_string_not_literal")
        return
    out.check(t is expected, "not_first_accepting_type",
              lambda: f"{s!r}: detected {getattr(t, '__name__', t)}, first accepting registered type is {expected.__name__}", "not_first_accepting_type")
    if isinstance(t, type) and t is not expected:
        ok, _ = accepts(t) if t in list(reg) else (False, None)
        out.check(ok, "classified_but_rejected", lambda: f"{s!r} classified as {t.__name__} whose parser rejects it", "classified_but_rejected")
    # parse . render . parse
    try:
        r = parsed.to_representation()
        again = expected.to_internal_value(r)
    except Exception as e:
        out.fail("roundtrip_raises", f"{expected.__name__}: {s!r} -> {parsed!r}: {type(e).__name__}: {e}", f"roundtrip_raises:{expected.__name__}")
        return
    base = expected.actual_type
    a = base.__call__(parsed) if base in (int, float, bool) else parsed
    b = base.__call__(again) if base in (int, float, bool) else again
    if base not in (int, float, bool):
        same = (a == b) and (getattr(a, "tzinfo", None) is None) == (getattr(b, "tzinfo", None) is None) and \
               (getattr(a, "utcoffset", lambda: None)() == getattr(b, "utcoffset", lambda: None)())
    else:
        same = values_equal(a, b)
    out.check(same, "roundtrip_changes_value",
              lambda: f"{expected.__name__}: {s!r} parses to {parsed!r}, renders as {r!r}, which parses to {again!r}", f"roundtrip_changes_value:{expected.__name__}")


# ------------------------------------------------------------------------------------------------ disabled types
def scen_disabled(ch, params, out):
    from json_to_models.dynamic_typing import (BooleanString, FloatString, IntString, StringSerializableRegistry,
                                               register_datetime_classes)
    from vflib import pipeline
    names = ["int", "float", "bool", "IntString", "FloatString", "BooleanString", "date", "IsoTimeString", "datetime"]
    mask = ch.pick("disabled_subset", 2 ** 6, shard=True)
    pool6 = ["int", "FloatString", "bool", "date", "IsoTimeString", "datetime"]
    disabled = [pool6[i] for i in range(6) if mask >> i & 1]
    alt = ch.flag("use_other_spelling")
    spell = {"int": "IntString", "FloatString": "float", "bool": "BooleanString", "date": "IsoDateString", "IsoTimeString": "time",
             "datetime": "IsoDatetimeString"}
    used = [spell[d] if alt else d for d in disabled]
    reg = StringSerializableRegistry()
    reg.add(cls=IntString)
    reg.add(replace_types=(IntString,), cls=FloatString)
    reg.add(cls=BooleanString)
    register_datetime_classes(reg)
    twice = ch.choose("registered_twice", ["no", "datetime_classes", "all"])
    if twice != "no":          # e.g. two CLI runs with --datetime in one process register the datetime classes on the same registry again
        register_datetime_classes(reg)
    if twice == "all":
        reg.add(cls=IntString)
        reg.add(replace_types=(IntString,), cls=FloatString)
        reg.add(cls=BooleanString)
    if ch.flag("strings_were_classified_before_disabling"):
        from json_to_models.generator import MetadataGenerator as _MG
        warm = _MG(str_types_registry=reg)
        for v in ("12", "1.5", "true", "2018-12-31", "12:58:12", "2018-12-31T12:58:12", "13", "2"):
            warm._detect_type(v)
        warm.generate({"a": "12", "g": ["1", "2.5"]})
    for n in used:
        reg.remove_by_name(n)
    canonical = {"int": "IntString", "FloatString": "FloatString", "bool": "BooleanString", "date": "IsoDateString", "IsoTimeString": "IsoTimeString",
                 "datetime": "IsoDatetimeString"}
    gone = {canonical[d] for d in disabled}
    out.info = {"disabled": used, "registered_twice": twice}
    out.check(not ({t.__name__ for t in reg} & gone), "disabled_type_still_registered", lambda: f"{[t.__name__ for t in reg]} after removing {used}",
              "disabled_type_still_registered")
    out.check(not any(a.__name__ in gone or b.__name__ in gone for a, b in reg.replaces), "disabled_type_in_replace_relation",
              lambda: f"{reg.replaces} after removing {used}", "disabled_type_in_replace_relation")
    samples = [{"a": "12", "b": "1.5", "c": "true", "d": "2018-12-31", "e": "12:58:12", "f": "2018-12-31T12:58:12", "g": ["1", "2.5"], "h": "1"},
               {"a": "13", "b": "2", "c": "false", "d": "2019-01-01", "e": "13:00", "f": "2019-01-01T00:00:00Z", "g": ["3"], "h": "true"}]
    fw = ch.choose("framework", ["pydantic", "attrs", "dataclasses"])
    try:
        gen, r, _ = pipeline.infer({"Root": samples}, str_registry=reg)
        text = pipeline.emit(r, fw, "flat", post_init_converters=True) if fw != "pydantic" else pipeline.emit(r, fw, "flat")
    except Exception as e:
        out.fail("pipeline_raises", f"{type(e).__name__}: {e} with {used} disabled", f"pipeline_raises:{type(e).__name__}")
        return
    from json_to_models.dynamic_typing import StringSerializable
    from inspect import isclass

    def walk(t):
        yield t
        try:
            for x in t:
                yield from walk(x)
        except TypeError:
            return
    root = [m for m in r.models][0]
    seen = {x.__name__ for ft in root.type.values() for x in walk(ft) if isclass(x) and issubclass(x, StringSerializable)}
    out.check(not (seen & gone), "disabled_type_in_ir", lambda: f"{seen & gone} inferred although disabled ({used})", "disabled_type_in_ir")
    actual = {"IntString": "int", "FloatString": "float", "BooleanString": "bool", "IsoDateString": "date", "IsoTimeString": "time",
              "IsoDatetimeString": "datetime"}
    import re
    for g in gone:
        token = actual[g] if fw == "pydantic" else g
        hit = re.search(rf"(?<![\w.]){re.escape(token)}(?![\w])", text.split("class Root", 1)[1])
        out.check(not hit, "disabled_type_in_output", lambda: f"{token} appears in {fw} output although {used} disabled\n{text}", "disabled_type_in_output")


def scen_disabled_cli(ch, params, out):
    """the same through the command line: --disable-str-serializable-types together with / without --datetime"""
    import json
    import re
    from vflib import clienv
    names = ["int", "float", "bool", "date", "time", "datetime", "IntString", "IsoDateString", "IsoDatetimeString"]
    mask = ch.pick("disabled_subset", 2 ** 4, shard=True)
    pool = ["float", "date", "IsoTimeString", "datetime"]
    disabled = [pool[i] for i in range(4) if mask >> i & 1] + (["int"] if ch.flag("also_int") else [])
    use_dt = ch.flag("--datetime")
    fw = ch.choose("framework", ["pydantic", "dataclasses"])
    order_first = ch.flag("disable_option_before_datetime_option")
    samples = [{"a": "12", "b": "1.5", "d": "2018-12-31", "e": "12:58:12", "f": "2018-12-31T12:58:12"},
               {"a": "13", "b": "2.5", "d": "2019-01-01", "e": "13:00:01", "f": "2019-01-01T00:00:00"}]
    fs = {"/vfs/in.json": json.dumps(samples)}
    argv = ["-m", "Root", "/vfs/in.json", "-f", fw]
    dis = (["--disable-str-serializable-types"] + disabled) if disabled else []
    dt = ["--datetime"] if use_dt else []
    argv += (dis + dt) if order_first else (dt + dis)
    earlier = ch.flag("earlier_run_in_same_process_without_the_option")
    if earlier:
        clienv.run_main(["-m", "Root", "/vfs/in.json", "-f", fw] + dt, dict(fs))
    res = clienv.run_main(argv, fs)
    out.info = {"argv": argv, "earlier_run": earlier}
    if not out.check(res.status == 0, "cli_fails", lambda: f"{res.stderr[-300:]} argv={argv}", "cli_fails"):
        return
    body = res.stdout.split('\n"""\n', 1)[-1]
    canonical = {"int": ("IntString", "int"), "float": ("FloatString", "float"), "date": ("IsoDateString", "date"), "IsoTimeString": ("IsoTimeString", "time"),
                 "datetime": ("IsoDatetimeString", "datetime")}
    fields = body.split("class Root", 1)[-1]
    for d in disabled:
        cls_name, actual = canonical[d]
        token = actual if fw == "pydantic" else cls_name
        hit = re.search(rf":\s*(Optional\[)?{re.escape(token)}\b", fields)
        out.check(not hit, "disabled_type_in_output", lambda: f"{token} still used although {d} is disabled (argv={argv})\n{body}", "disabled_type_in_cli_output")


# ------------------------------------------------------------------------------------------------ symbolic-string round trip
def scen_bool_symbolic(ch, params, out):
    from json_to_models.dynamic_typing import BooleanString
    n = params.get("maxlen", 5)
    s = ch.sym_str("s", n, params.get("maxcp", 0x10FFFF))
    with ch.traced():
        try:
            v = BooleanString.to_internal_value(s)
        except ValueError:
            out.checked += 1
            return
        r = v.to_representation()
        again = BooleanString.to_internal_value(r)
        ok = (bool(again) == bool(v)) and (s.lower() == r)
    out.check(ok, "bool_roundtrip", lambda: f"{ch.finalize()}", "bool_roundtrip")


def parts(tier):
    q = tier == "quick"
    return [
        CH("first_match", "vflib.props.c09:scen_first_match", {"types": 3 if q else 4}, shards=8, timeout=170 if q else 200, path_timeout=30, mode="CH-P"),
        CH("resolve", "vflib.props.c09:scen_resolve", {"types": 3 if q else 4}, shards=7 if q else 15, timeout=170 if q else 200, path_timeout=30),
        SMT("replaces", "vflib.props.c09:kernel_replaces", {"validation_per_class": 20 if q else 60}, timeout=400, mode="SMT-S"),
        CH("grammar", "vflib.props.c09:scen_grammar", {}, shards=7, timeout=170 if q else 200, path_timeout=30),
        CH("disabled", "vflib.props.c09:scen_disabled", {}, shards=16, timeout=170 if q else 200, path_timeout=30),
        CH("disabled_cli", "vflib.props.c09:scen_disabled_cli", {}, shards=8, timeout=170 if q else 200, path_timeout=30),
        CH("bool_symbolic", "vflib.props.c09:scen_bool_symbolic", {"maxlen": 5, "maxcp": 127} if q else {"maxlen": 5}, shards=1, timeout=150 if q else 300, path_timeout=60, mode="CH-P"),
    ]


META = {
    "level": "other",
    "technique": "CrossHair symbolic execution with stub parsers / symbolic replace relations / a symbolic string, SMT regex inclusion (z3 sequence theory) for the shipped replace edges, solver-enumerated string grammar through the real parsers",
    "mode": "CH-P + CH-E + SMT-S",
    "explanation": "detection order for any parser set; resolve for any replace relation; inclusion of the shipped edges for all ASCII strings; grammar strings through the real parsers incl. dateutil",
    "functions_encoded": ["MetadataGenerator._detect_type (string branch)", "StringSerializableRegistry.add/remove/remove_by_name/resolve", "MetadataGenerator._optimize_union (pseudo-type clause)",
                          "IntString / FloatString / BooleanString parsers and renderers", "IsoDateString / IsoTimeString / IsoDatetimeString (through the grammar only)", "registry.replaces"],
    "symbolic_on_path": ["acceptance bit per stub type", "registration order / prefix", "replace relation bits", "argument subset", "string s (SMT and CrossHair string)", "grammar selectors", "disabled subset"],
    "bounds": {"quick": "3 stub types (all orders and prefixes); 3 types x 6 relation bits x 7 subsets; ASCII strings of any length for the edges; grammar ~3.5k strings x datetime bit; 64 disabled subsets x 2 spellings x {registered once, datetime classes twice, all twice} x 3 frameworks; symbolic bool strings up to 5 ASCII chars (thorough: 5 arbitrary code points)",
               "thorough": "4 stub types; 4 types x 12 relation bits"},
    "outside_claim": ["classification of arbitrary strings by dateutil (only the grammar's strings)", "non-ASCII digits / whitespace in the inclusion proof", "int/float round trip beyond the grammar (delegated to CPython's int/str/float/repr)"],
    "assumptions": ["regex models of int()/float()/bool parsing (ASCII fragment) — validated each run against the real parsers on solver-generated strings",
                    "a stub pseudo-type is any class with a to_internal_value that raises ValueError or returns"],
}
