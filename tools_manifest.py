#!/usr/bin/env python3
"""Regenerates /verif/MANIFEST.json from the META of each vflib.props.cNN module (run with .venv/bin/python)."""
import importlib, json, os, sys
sys.path.insert(0, os.path.dirname(os.path.abspath(__file__)))
IDS = [json.loads(l)["id"] for l in open("/verif/properties.jsonl")]
checks, na = [], []
NA_REASONS = {}
for pid in IDS:
    try:
        m = importlib.import_module(f"vflib.props.{pid.lower()}")
    except ModuleNotFoundError:
        na.append({"property_id": pid, "reason": NA_REASONS.get(pid, "check not built yet (work in progress); see DESIGN.md section 4 for the planned solver-based check")})
        continue
    M = m.META
    if M.get("not_applicable"):
        na.append({"property_id": pid, "reason": M["not_applicable"]})
        continue
    checks.append({
        "property_id": pid,
        "quick_cmd": f"./vf {pid} quick",
        "thorough_cmd": f"./vf {pid} thorough",
        "evidence_file": f"/verif/evidence/{pid}.json",
        "replay_cmd_template": "./vf replay {path}",
        "engine": "vflib",
        "level_claimed": {"category": M["level"], "text": M.get("claim", M.get("explanation", "")), "design_ref": f"DESIGN.md section 4 {pid}"},
        "level_note": "; ".join(M.get("assumptions", [])) + " | outside the claim: " + "; ".join(M.get("outside_claim", [])),
        "technique": M.get("technique", "bounded symbolic execution of the real code with CrossHair/z3 (solver-enumerated choice variables, exhaustion certified by the engine) with native replay of counterexamples"),
    })
manifest = {
    "version": 1,
    "setup_cmd": "./vf setup",
    "hooks": {"guard": "J2M_VERIF", "enable": "no hooks in /repo are needed: harnesses import /repo/json_to_models from the working tree and substitute stubs from outside",
              "baseline_off_cmd": "cd /repo && /venv/bin/python -m pytest -ra -q -p no:cacheprovider --timeout=900 --continue-on-collection-errors",
              "source_commits": [], "add_only": True},
    "engines": [{"name": "vflib", "path": "/verif/vflib", "serves_properties": [c["property_id"] for c in checks],
                 "kind_free_text": "CrossHair 0.0.110 (z3 5.1) symbolic/choice-exhaustive execution of the real Python modules + direct z3/cvc5 encodings generated from the current source AST; counterexamples replayed in a plain interpreter"}],
    "checks": checks,
    "notes": "Exit 3 = harness error (vacuous harness, non-replaying counterexample, model validation failure). Budget-limited runs report exhaustive:false in evidence.",
    "not_applicable": na,
}
json.dump(manifest, open("/verif/MANIFEST.json", "w"), indent=1)
print("claimed:", [c["property_id"] for c in checks]); print("n/a:", [x["property_id"] for x in na])
