"""C17 — a failing run reports failure and leaves existing output untouched (CH-E fault enumeration)."""
import ast
import contextlib
import json
import re

from vflib.parts import CH

SAMPLES = [
    {"id": 1, "name": "alpha", "tags": ["x", "y"], "owner": {"login": "a", "age": 3}},
    {"id": 2, "name": "beta", "tags": [], "owner": {"login": "b", "age": 4, "site": None}},
    {"id": 3, "name": "gamma", "score": 1.5, "owner": {"login": "c", "age": 5}},
]
OLD = "# precious previous content\nclass Keep:\n    x: int = 1\n"
TARGET = "/vfs/out/models.py"

FILE_FAULTS = ["missing", "malformed", "lookup_missing_key", "lookup_scalar", "non_object_sample", "scalar_root",
               "non_string_key", "reused_file_lookup_missing_key", "reused_file_lookup_scalar",
               "lookup_null", "lookup_zero", "lookup_empty_string", "lookup_false", "null_root"]
ARG_FAULTS = ["bad_merge", "bad_merge_arg", "bad_merge_after_good", "bad_merge_before_good", "bad_merge_between_good", "bad_merge_arg_after_good", "custom_without_generator", "generator_without_custom", "bad_structure",
              "bad_framework", "bad_input_format", "no_file_arg", "bad_max_literals", "bad_custom_generator_path"]
STEP_FAULTS = ["generate", "merge_models", "generate_names", "compose", "codegen"]


class Injected(Exception):
    pass


def _ini(objs):
    lines = []
    for i, o in enumerate(objs):
        lines.append(f"[sec{i}]")
        for k, v in o.items():
            if not isinstance(v, (dict, list)):
                lines.append(f"{k} = {v}")
    return "\n".join(lines) + "\n"


def _doc(fmt, objs, wrap):
    if fmt == "ini":
        return _ini(objs)
    body = objs if len(objs) != 1 else objs[0]
    if wrap:
        body = {"data": {"items": body, "count": len(objs), "nothing": None, "zero": 0, "blank": "", "no": False}}
    return json.dumps(body)


def _faulty_doc(fmt, kind, objs, wrap):
    if kind == "malformed":
        return {"json": '{"a": 1,', "yaml": "a: [1, 2\nb: }", "ini": "key_without_section = 1\n"}[fmt]
    if kind == "non_object_sample":
        body = [objs[0], 17]
        if wrap:
            body = {"data": {"items": body, "count": 2}}
        return json.dumps(body)
    if kind == "scalar_root":
        return "42" if not wrap else json.dumps({"data": {"items": 42, "count": 1}})
    if kind == "non_string_key":
        return "- {1: x, name: y}\n" if not wrap else "data:\n  items:\n    - {1: x, name: y}\n  count: 1\n"
    return _doc(fmt, objs, wrap)


def looks_like_code(text):
    return any(re.match(r"\s*(class \w+|@\w+|from \w[\w.]* import|import \w+)", line) for line in text.splitlines())


def scen_faults(ch, params, out):
    from vflib import clienv
    import json_to_models.cli as cli_mod
    import json_to_models.models.base as base_mod

    multi = params.get("multi", False)
    configs = [(f, n, o) for f in params.get("formats", ["json", "yaml", "ini"]) for n in (1, 2, 3)
               for o in ("stdout", "new_file", "existing_file")]
    fmt, nfiles, out_mode = ch.choose("fmt,nfiles,out", configs, shard=True)
    wrap = fmt != "ini" and ch.flag("lookup")
    framework = ch.choose("framework", params.get("frameworks", ["base"]))
    family = ch.choose("family", ["none", "file", "arg", "step"])
    fs = {}
    argv = []
    faults = []
    file_fault = None
    if family == "file":
        kinds = [k for k in FILE_FAULTS if not (
            (k in ("non_object_sample", "scalar_root", "null_root") and fmt == "ini") or (k == "non_string_key" and fmt != "yaml")
            or ("lookup" in k and not wrap))]
        file_fault = (ch.choose("file_fault", kinds), ch.pick("pos", nfiles))
        faults.append(file_fault[0])
        if multi and nfiles > 1 and ch.flag("second_fault"):
            pass
    split = [SAMPLES[i::nfiles] for i in range(nfiles)]
    for i in range(nfiles):
        path = f"/vfs/in/f{i}.{fmt}"
        kind = file_fault[0] if file_fault and file_fault[1] == i else None
        lookup = "data.items" if wrap else "-"
        if kind == "missing":
            pass
        elif kind == "lookup_missing_key":
            fs[path] = _doc(fmt, split[i], wrap)
            lookup = "data.nope"
        elif kind == "lookup_scalar":
            fs[path] = _doc(fmt, split[i], wrap)
            lookup = "data.count"
        elif kind in ("lookup_null", "lookup_zero", "lookup_empty_string", "lookup_false"):
            fs[path] = _doc(fmt, split[i], wrap)
            lookup = {"lookup_null": "data.nothing", "lookup_zero": "data.zero", "lookup_empty_string": "data.blank", "lookup_false": "data.no"}[kind]
        elif kind == "null_root":
            fs[path] = "null"
            lookup = "-"
        elif kind:
            fs[path] = _faulty_doc(fmt, kind, split[i], wrap)
        else:
            fs[path] = _doc(fmt, split[i], wrap)
        if kind in ("reused_file_lookup_missing_key", "reused_file_lookup_scalar"):
            # the same file is named twice: a good lookup first, then a faulty one (a cache keyed by path would hide it)
            fs[path] = _doc(fmt, split[i], wrap)
            argv += ["-m", "Model", "data.items", path, "-m", "Model", "data.nope" if kind.endswith("missing_key") else "data.count", path]
            continue
        argv += ["-m", "Model", lookup, path] if (wrap or ch.flag(f"explicit_dash{i}")) else ["-m", "Model", path]
    argv += ["-i", fmt, "-f", framework]
    if family == "arg":
        k = ch.choose("arg_fault", ARG_FAULTS)
        faults.append(k)
        if k == "bad_merge":
            argv += ["--merge", "fuzzy"]
        elif k == "bad_merge_arg":
            argv += ["--merge", "percent_abc"]
        elif k == "bad_merge_after_good":           # an invalid entry in a list that also has valid ones
            argv += ["--merge", "percent", "fuzzy"]
        elif k == "bad_merge_before_good":
            argv += ["--merge", "fuzzy", "percent_80"]
        elif k == "bad_merge_between_good":
            argv += ["--merge", "exact", "similar_10", "number_5"]
        elif k == "bad_merge_arg_after_good":
            argv += ["--merge", "exact", "number_ten"]
        elif k == "custom_without_generator":
            argv[argv.index("-f") + 1] = "custom"
        elif k == "generator_without_custom":
            argv += ["--code-generator", "json_to_models.models.attr.AttrsModelCodeGenerator"]
        elif k == "bad_structure":
            argv += ["-s", "tree"]
        elif k == "bad_framework":
            argv[argv.index("-f") + 1] = "django"
        elif k == "bad_input_format":
            argv[argv.index("-i") + 1] = "xml"
        elif k == "no_file_arg":
            argv = ["-m", "Model"] + argv[argv.index("-i"):]
        elif k == "bad_max_literals":
            argv += ["--max-strings-literals", "many"]
        elif k == "bad_custom_generator_path":
            argv[argv.index("-f") + 1] = "custom"
            argv += ["--code-generator", "json_to_models.models.nowhere.Gen"]
    if out_mode != "stdout":
        argv += ["-o", TARGET]
        if out_mode == "existing_file":
            fs[TARGET] = OLD
    step_enabled = family == "step"
    fired = []

    def maybe(step):
        # lazily consulted fault bit: steps that are never reached never cost a path
        if step_enabled and not fired and ch.flag("fault@" + step):
            fired.append(step)
            raise Injected(step)

    @contextlib.contextmanager
    def hooks():
        saved = []

        def wrap_method(owner, name, step, counter=None):
            orig = getattr(owner, name)

            def w(*a, **k):
                if counter is not None:
                    counter[0] += 1
                    maybe(f"{step}#{counter[0]}")
                else:
                    maybe(step)
                return orig(*a, **k)
            saved.append((owner, name, orig))
            setattr(owner, name, w)

        wrap_method(cli_mod.MetadataGenerator, "generate", "generate")
        wrap_method(cli_mod.ModelRegistry, "merge_models", "merge_models")
        wrap_method(cli_mod.ModelRegistry, "generate_names", "generate_names")
        wrap_method(base_mod.GenericModelCodeGenerator, "generate", "codegen", counter=[0])
        orig_map = dict(cli_mod.Cli.STRUCTURE_FN_MAPPING)
        for key, fn in orig_map.items():
            def mk(fn):
                def w(*a, **k):
                    maybe("compose")
                    return fn(*a, **k)
                return w
            cli_mod.Cli.STRUCTURE_FN_MAPPING[key] = mk(fn)
        try:
            yield
        finally:
            for owner, name, orig in saved:
                setattr(owner, name, orig)
            cli_mod.Cli.STRUCTURE_FN_MAPPING.clear()
            cli_mod.Cli.STRUCTURE_FN_MAPPING.update(orig_map)

    res = clienv.run_main(argv, fs, hooks)
    faults += fired
    out.info = {"argv": argv, "faults": faults, "status": res.status, "out_mode": out_mode}
    if step_enabled and not fired:
        faults_present = False
    else:
        faults_present = bool(faults)
    if faults_present:
        tag = faults[0].split("#")[0]
        out.check(res.status not in (0, None), "fault_exit_status_zero",
                  f"fault {faults} but exit status {res.status}; argv={argv}", f"status0:{tag}")
        out.check(not looks_like_code(res.stdout), "fault_prints_code",
                  f"fault {faults} but stdout carries code: {res.stdout[:200]!r}", f"code_on_stdout:{tag}")
        if out_mode == "existing_file":
            out.check(fs.get(TARGET) == OLD, "fault_clobbers_output",
                      f"fault {faults}: pre-existing -o target changed to {fs.get(TARGET, '<deleted>')[:120]!r}; ops={res.oplog[-4:]}",
                      f"clobber:{tag}")
    else:
        out.check(res.status == 0, "good_run_fails", f"no fault but status {res.status}: {res.stderr[-400:]} argv={argv}",
                  "good_run_fails")
        if res.status == 0:
            text = fs.get(TARGET) if out_mode != "stdout" else res.stdout
            ok = isinstance(text, str) and text.endswith("\n")
            try:
                tree = ast.parse(text or "")
                classes = [n.name for n in ast.walk(tree) if isinstance(n, ast.ClassDef)]
                ok = ok and "Model" in classes and isinstance(tree.body[0], ast.Expr)
            except SyntaxError:
                ok = False
            out.check(ok, "good_run_incomplete_text", f"complete module expected, got {str(text)[:300]!r}", "incomplete")
            if out_mode != "stdout":
                out.check(not looks_like_code(res.stdout), "good_o_run_prints_code", res.stdout[:200], "o_prints_code")
                # reference: the same command without -o must print the same code after the 4-line header
                argv2 = argv[:argv.index("-o")] + argv[argv.index("-o") + 2:]
                fs2 = {k: v for k, v in fs.items() if k != TARGET}
                ref = clienv.run_main(argv2, fs2)
                body = lambda t: t.split('\n"""\n', 1)[1] if '\n"""\n' in t else t
                # print() appends one newline to the text returned by run()
                out.check(ref.status == 0 and body(ref.stdout) == body(text) + "\n", "o_text_differs_from_stdout",
                          f"-o text differs from what is printed without -o", "o_differs")


def parts(tier):
    if tier == "quick":
        return [CH("faults", "vflib.props.c17:scen_faults", {"formats": ["json", "yaml", "ini"], "frameworks": ["base"]},
                   shards=12, timeout=150, path_timeout=30)]
    return [CH("faults", "vflib.props.c17:scen_faults",
               {"formats": ["json", "yaml", "ini"], "frameworks": ["base", "pydantic", "attrs", "dataclasses"]},
               shards=15, timeout=800, path_timeout=60)]


META = {
    "level": "fault_enumeration",
    "mode": "CH-E",
    "explanation": "CrossHair explores every assignment of the fault/position/format/output-mode variables; the real "
                   "json_to_models.cli.main() runs on an in-memory file table; fault bits inside the pipeline are consulted lazily.",
    "functions_encoded": ["json_to_models.cli.main", "Cli.parse_args", "Cli.setup_models_data", "Cli.validate", "Cli.set_args",
                          "Cli.run", "iter_json_file", "dict_lookup", "process_path", "FileLoaders.json/yaml/ini"],
    "symbolic_on_path": ["input format", "number of files", "output mode", "fault family/kind/position",
                         "per-step fault bits (generate, merge_models, generate_names, compose, codegen of class i)"],
    "bounds": {"quick": "<=3 input files, 3 formats, 7 file faults x position, 10 argument faults, 5 pipeline steps, framework base",
               "thorough": "same with 4 frameworks"},
    "outside_claim": ["real OS processes and file systems (in-memory substitutes with truncate-on-open semantics)",
                      "two simultaneous file faults", "I/O errors while writing the output file"],
    "assumptions": ["fake Path.open / cli.open model the OS: reading a missing path raises FileNotFoundError, open(...,'w') truncates at open",
                    "exit status follows CPython: uncaught exception => 1, SystemExit(code) => code",
                    "a fault inside the pipeline is modelled as an exception raised on entry of the step"],
}
if isinstance(META.get("bounds"), dict) and "quick" in META["bounds"]:
    META["bounds"]["quick"] += '; 4 mixed valid / invalid merge lists'
