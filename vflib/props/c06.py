"""C06 — output is a deterministic function of inputs and options.

Hash seeds and memory layout enter the anchored code through the iteration order of sets of ModelMeta (hash of the
index string) and ModelPtr (hash = id).  The harness patches those two __hash__ methods, from outside, to return a
solver-chosen rank per object; for the small sets involved CPython iterates in slot = rank order, so the solver ranges
over the iteration orders.  Every rank assignment must give the same text as the reference assignment."""
import contextlib
import copy

from vflib.parts import CH

INPUTS = {
    # one model referenced from 18 differently named fields: its generated name is built from a set of 18 words
    "many_refs": [{f"section_{w}": {"title": "t", "body": "b", "n": i} for i, w in enumerate(
        ["alpha", "bravo", "charlie", "delta", "echo", "foxtrot", "golf", "hotel", "india", "juliet", "kilo", "lima", "mike", "november", "oscar", "papa", "quebec", "romeo"])}],
    # models with the same fields and types but another key order (they compare equal although they are distinct objects)
    "equal_models": [{"first": {"a": 1, "b": 2, "c": 1.5}, "second": {"c": 2.5, "b": 3, "a": 4}, "third": [{"b": 5, "c": 3.5, "a": 6}]}],
    # strings that differ only by case: any order that is not a total order on the strings leaks the set order
    "case_literals": [{"state": "ok", "tags": ["A", "a"]}, {"state": "OK", "tags": ["B", "b", "a"]}, {"state": "Ok", "tags": []}],
    # two mergeable nested models with different field sets and orders (merged field order is the classic leak)
    "merge2": [{"p": {"x": 1, "y": 2, "z": 3, "w": 1}, "q": [{"w": 1, "z": 3, "x": 1, "y": 2, "extra": "s"}, {"x": 1, "z": 3, "w": 1}]}],
    # three mergeable models + a model shared by two parents
    "merge3": [{"a": {"k1": 1, "k2": 2, "k3": 3, "k4": "s"}, "b": {"k4": "t", "k3": 3, "k2": 2, "k1": 1, "b_only": None},
                "c": [{"k2": 2, "k1": 1, "k3": 3, "k4": "u", "c_only": 1.5}], "d": {"inner": {"k1": 1, "k2": 2, "k3": 3, "k4": "v"}}}],
    "shared": [{"left": {"item": {"sku": "s", "qty": 1, "w": 1.5}, "l": 1}, "right": {"item": {"sku": "t", "qty": 2, "w": 2.5, "opt": 1}, "r": "x"}}],
    "names": [{"users": [{"address": {"city": "c", "zip": "1", "geo": 1}}], "orders": [{"address": {"city": "d", "zip": "2", "geo": 2, "note": "n"}}],
               "shipping_address": {"city": "e", "zip": "3", "geo": 3}}],
    # a self-recursive root whose nested models are used both by the root and by one another: no model is a "root" in the sense of
    # extract_root (every model has a parent pointer), so the layout code falls back to its set of parent indexes (a set of str)
    "recursive_shared": [{"val": 1, "children": [{"val": 2, "children": [], "info": {"a": 1, "b": "x"}, "extra": {"c": 1.5, "info": {"a": 2, "b": "y"}}}],
                          "info": {"a": 3, "b": "z"}, "extra": {"c": 2.5, "info": {"a": 4, "b": "w"}}}],
    # the same without recursion: a grandchild shared by its parent and its grandparent
    "shared_by_parent_and_grandparent": [{"info": {"a": 3, "b": "z"}, "extra": {"c": 2.5, "info": {"a": 4, "b": "w"}, "more": {"d": 1, "info": {"a": 5, "b": "v"}}}}],
    # keys without any word character: nothing is left after sanitising (the pinned tree fails on them -- the same way in every process)
    "punctuation_only_keys": [{"$": 1, "%": {"a": 1}, "": "x", "ok": 2}],
    # (a dict instead of a list: several root models) one model shared by three / four roots: the nested layout places the shared class
    # relative to the roots that use it, found by walking sets of ModelPtr (hashed by id)
    "three_roots_shared": {"Alpha": [{"item": {"sku": "s", "qty": 1, "w": 1.5}, "a": 1}], "Beta": [{"item": {"sku": "t", "qty": 2, "w": 2.5}, "b": "x"}],
                           "Gamma": [{"item": {"sku": "u", "qty": 3, "w": 3.5}, "c": [1]}], "Delta": [{"d": {"item": {"sku": "v", "qty": 4, "w": 4.5}, "dd": 1}}]},
    "literals": [{"kind": "b", "tags": ["y", "x"]}, {"kind": "a", "tags": ["z"]}, {"kind": "c", "tags": []}],
}


@contextlib.contextmanager
def ranked_hashes(rank_of_model, rank_of_ptr):
    from json_to_models.dynamic_typing import ModelMeta, ModelPtr
    om, op = ModelMeta.__hash__, ModelPtr.__hash__
    ModelMeta.__hash__ = lambda self: rank_of_model(self)
    ModelPtr.__hash__ = lambda self: rank_of_ptr(self)
    try:
        yield
    finally:
        ModelMeta.__hash__, ModelPtr.__hash__ = om, op


def run_pipeline(inp, fw, layout):
    from vflib import pipeline
    data = INPUTS[inp]
    gen, reg, _ = pipeline.infer(copy.deepcopy(data) if isinstance(data, dict) else {"Root": copy.deepcopy(data)})
    if layout == "nested" and not pipeline.is_tree(reg) and not isinstance(data, dict):
        layout = "flat"
    kw = {"meta": True} if fw in ("attrs", "dataclasses") else {}
    return pipeline.emit(reg, fw, layout, **kw)


def scen_ranks(ch, params, out):
    combos = [(i, fl, pm) for i in params.get("inputs", ["merge2", "merge3", "shared"])
              for fl in [("pydantic", "flat"), ("dataclasses", "nested")] for pm in ["creation", "reverse", "interleaved"]]
    inp, (fw, layout), ptr_mode = ch.choose("input,framework/layout,pointer_hash_order", combos, shard=True)
    max_ranked = params.get("max_ranked", 5)

    # reference: ranks in creation order
    def ref_ranks():
        mr, pr = {}, {}
        return (lambda m: mr.setdefault(m.index, len(mr) + 1)), (lambda p: pr.setdefault(id(p), len(pr) + 1))
    try:
        with ranked_hashes(*ref_ranks()):
            ref = run_pipeline(inp, fw, layout)
    except Exception as e:
        out.fail("reference_run_raises", f"{type(e).__name__}: {e}", "reference_run_raises")
        return
    free = list(range(1, 8))
    mr, pr = {}, {}
    keep = []

    def model_rank(m):
        if m.index not in mr:
            if not free or len(mr) >= max_ranked:
                mr[m.index] = 7 + len(mr)
            else:
                mr[m.index] = free.pop(ch.pick(f"rank_of_model({m.index})", len(free)))
        return mr[m.index]

    def ptr_rank(p):
        if id(p) not in pr:
            keep.append(p)
            n = len(pr)
            pr[id(p)] = {"creation": n + 1, "reverse": 1000 - n, "interleaved": (n * 5) % 7 + 8 * (n // 7) + 1}[ptr_mode]
        return pr[id(p)]
    try:
        with ranked_hashes(model_rank, ptr_rank):
            text = run_pipeline(inp, fw, layout)
    except Exception as e:
        out.fail("run_raises_under_other_order", f"{type(e).__name__}: {e} ranks={mr}", "run_raises_under_other_order")
        return
    out.info = {"input": inp, "ranks": dict(mr), "pointer_order": ptr_mode}
    detail = ""
    if text != ref and not ch.symbolic:
        detail = confirm_with_seeds(inp, fw, layout)
    out.check(text == ref, "output_depends_on_set_iteration_order",
              lambda: f"input {inp} [{fw}/{layout}]: with hash ranks {mr} (pointers: {ptr_mode}) the output differs from creation-order ranks.{detail}\n--- reference\n{ref}\n--- other order\n{text}",
              "output_depends_on_set_iteration_order")


def confirm_with_seeds(inp, fw, layout, seeds=24):
    """replay only: the same generation in fresh processes under different PYTHONHASHSEED values"""
    import os
    import subprocess
    outs = {}
    for s in range(seeds):
        env = dict(os.environ)
        env["PYTHONHASHSEED"] = str(s)
        code = f"from vflib.props.c06 import run_pipeline; import sys; sys.stdout.write(run_pipeline({inp!r},{fw!r},{layout!r}))"
        p = subprocess.run(["/venv/bin/python", "-c", code], capture_output=True, text=True, env=env, timeout=120)
        outs.setdefault(p.stdout, []).append(s)
    if len(outs) > 1:
        return f" CONFIRMED with real hash seeds: {len(outs)} distinct outputs, e.g. seeds {[v[0] for v in outs.values()][:3]}."
    return f" (not reproduced by PYTHONHASHSEED 0..{seeds - 1}; the rank assignment is an admissible iteration order nevertheless)"


def scen_seeds_literals(ch, params, out):
    """sets of str (literal sets, name parts) cannot be re-ranked from outside: checked by sorted()-ness of the output under two real seeds"""
    import os
    import subprocess
    inp = ch.choose("input", ["literals", "names", "merge3", "case_literals", "equal_models", "many_refs", "recursive_shared",
                              "shared_by_parent_and_grandparent", "punctuation_only_keys"], shard=False)
    seed = 1 + ch.pick("seed", params.get("seeds", 6))
    outs = []
    for s in (0, seed):
        env = dict(os.environ)
        env["PYTHONHASHSEED"] = str(s)
        code = f"from vflib.props.c06 import run_pipeline; import sys; sys.stdout.write(run_pipeline({inp!r},'pydantic','flat'))"
        p = subprocess.run(["/venv/bin/python", "-c", code], capture_output=True, text=True, env=env, timeout=120)
        outs.append(p.stdout if p.returncode == 0 else "ERROR " + p.stderr[-300:])
    out.info = {"input": inp, "seed": seed}
    out.check(outs[0] == outs[1], "output_depends_on_hash_seed", lambda: f"input {inp}: PYTHONHASHSEED=0 vs {seed}:\n{outs[0]}\n---\n{outs[1]}",
              "output_depends_on_hash_seed")


def scen_seeds_cli(ch, params, out):
    """the real CLI in fresh processes under two hash seeds: several files / a glob for one model name, several models"""
    import json
    import os
    import subprocess
    import tempfile
    plan = ch.choose("plan", ["three_files_repeated_m", "glob", "two_models_glob_and_file"], shard=False)
    seed = 1 + ch.pick("seed", params.get("seeds", 5))
    fw = ch.choose("framework", ["base", "pydantic"])
    d = tempfile.mkdtemp(prefix="vf-c06-")
    try:
        docs = [{"id": 1, "name": "a", "tags": ["x"]}, {"name": "b", "id": "2", "extra": {"k": 1}}, {"tags": [], "score": 1.5, "id": 3}, {"zeta": None, "id": 4}]
        for i, doc in enumerate(docs):
            with open(os.path.join(d, f"item{i}.json"), "w") as f:
                json.dump(doc, f)
        if plan == "three_files_repeated_m":
            args = sum([["-m", "Item", os.path.join(d, f"item{i}.json")] for i in (2, 0, 1)], [])
        elif plan == "glob":
            args = ["-m", "Item", os.path.join(d, "item[0-2].json")]      # order within one pattern is unspecified by C16 -> compare as a set of outputs
        else:
            args = ["-m", "Item", os.path.join(d, "item0.json"), "-m", "Item", os.path.join(d, "item1.json"), "-m", "Other", os.path.join(d, "item3.json")]
        outs = []
        # the same command several times per seed: a difference between two runs under the SAME seed (scheduling, timing) is a
        # violation as well; a replay repeats more often, because such a difference need not show on every run
        repeats = 2 if ch.symbolic else 8
        for s_ in [0, seed] * repeats:
            env = dict(os.environ)
            env["PYTHONHASHSEED"] = str(s_)
            p = subprocess.run(["/venv/bin/python", "-m", "json_to_models"] + args + ["-f", fw], capture_output=True, text=True, env=env, timeout=120, cwd=d)
            body = p.stdout.split('\n"""\n', 1)[-1] if p.returncode == 0 else "ERROR " + p.stderr[-300:]
            outs.append(body)
        outs = [outs[0]] + ([o for o in outs if o != outs[0]][:1] or [outs[0]])
    finally:
        import shutil
        shutil.rmtree(d, ignore_errors=True)
    out.info = {"plan": plan, "seed": seed, "framework": fw}
    if plan == "glob":
        out.checked += 1      # a glob's file order is unspecified (C16); nothing is claimed about it here
        return
    out.check(outs[0] == outs[1], "output_depends_on_hash_seed", lambda: f"{plan} [{fw}]: runs of the same command under PYTHONHASHSEED=0 / {seed} differ:\n{outs[0]}\n---\n{outs[1]}",
              "output_depends_on_hash_seed")


def parts(tier):
    if tier == "quick":
        return [CH("ranks", "vflib.props.c06:scen_ranks", {"inputs": ["merge2", "merge3", "shared", "equal_models", "three_roots_shared"], "max_ranked": 5}, shards=16, timeout=170, path_timeout=60),
                CH("real_seeds", "vflib.props.c06:scen_seeds_literals", {"seeds": 5}, shards=1, timeout=170, path_timeout=60),
                CH("real_seeds_cli_files", "vflib.props.c06:scen_seeds_cli", {"seeds": 4}, shards=1, timeout=170, path_timeout=60),
                CH("same_generation_later_in_process", "vflib.props.c14:scen_history",
                   {"calls": 3, "inputs": ["simple", "shared"], "frameworks": ["pydantic"]}, shards=12, timeout=170, path_timeout=60),
                CH("same_generation_after_other_registries", "vflib.props.c14:scen_history",
                   {"calls": 2, "inputs": ["dates"], "frameworks": ["pydantic"], "registries": ["default", "none", "datetime"]}, shards=16, timeout=170, path_timeout=60)]
    return [CH("ranks", "vflib.props.c06:scen_ranks", {"inputs": ["merge2", "merge3", "shared", "names", "literals", "equal_models", "three_roots_shared"], "max_ranked": 7}, shards=16, timeout=150, path_timeout=60),
            CH("real_seeds", "vflib.props.c06:scen_seeds_literals", {"seeds": 40}, shards=1, timeout=150, path_timeout=60),
            CH("real_seeds_cli_files", "vflib.props.c06:scen_seeds_cli", {"seeds": 20}, shards=1, timeout=150, path_timeout=60)]


META = {
    "level": "exploration", "mode": "CH-E with hash values as solver variables",
    "explanation": "the solver assigns the hash rank of every ModelMeta that gets hashed (lazily, as a permutation) and one of three orders for ModelPtr hashes; the emitted text must not depend on them",
    "functions_encoded": ["ModelRegistry.merge_models / _merge", "ModelMeta.__hash__ / ModelPtr.__hash__ (patched from outside)", "compose_models / compose_models_flat", "ModelMeta.generate_name",
                          "distinct_words", "StringLiteral.to_typing_code (sorted literals)", "compile_imports"],
    "symbolic_on_path": ["hash rank of each hashed ModelMeta (permutation of up to 5 (quick) / 7 (thorough) ranks; later models get increasing ranks)", "ModelPtr hash order (creation / reverse / interleaved)", "input", "framework+layout"],
    "bounds": {"quick": "3 inputs (<=7 hashed models), 2 framework/layout pairs, 3 pointer orders; plus 5 real PYTHONHASHSEED values on 3 inputs for str-keyed sets",
               "thorough": "5 inputs; 40 real seeds"},
    "outside_claim": ["iteration order of sets of str (str.__hash__ cannot be patched): covered only by real hash seeds, i.e. sampled", "sets with more than 7 models (beyond the slot=rank regime)"],
    "assumptions": ["for sets of fewer than 6 elements with distinct small hashes CPython iterates in increasing hash order"],
}
if isinstance(META.get("bounds"), dict) and "quick" in META["bounds"]:
    META["bounds"]["quick"] += '; recursive / shared-grandchild / punctuation-only-key inputs under real seeds; every CLI command repeated per seed (8x on replay)'
